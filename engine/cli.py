import argparse
import os
import sys

ROOT = os.path.dirname(os.path.dirname(os.path.abspath(__file__)))
sys.path.insert(0, ROOT)


def main():
    ap = argparse.ArgumentParser()
    ap.add_argument('prop', nargs='?')
    ap.add_argument('--tier', default=os.environ.get('VERIF_TIER', 'quick'), choices=['quick', 'thorough'])
    ap.add_argument('--only')
    ap.add_argument('--replay')
    ap.add_argument('--selftest', action='store_true')
    ap.add_argument('--jobs', type=int)
    ap.add_argument('--budget', type=float)
    a = ap.parse_args()
    from engine import driver
    if a.selftest:
        sys.exit(driver.selftest())
    if a.replay:
        sys.exit(driver.replay_file(a.replay))
    seed = int(os.environ.get('VERIF_SEED', '0') or 0)
    sys.exit(driver.run_property(a.prop, a.tier, seed, only=a.only, jobs=a.jobs, budget=a.budget))


if __name__ == '__main__':
    main()
