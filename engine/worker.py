"""One analysis (or one concrete replay) in a fresh process.

  python -m engine.worker analyze <module_file> <function> <timeout_s> [per_path_s]
  python -m engine.worker replay  <module_file> <function> <json args file | ->   (VERIF_CONCRETE=1)

Prints exactly one line starting with ``RESULT `` followed by JSON.
"""
import collections
import contextlib
import importlib.util
import json
import os
import re
import sys
import time
import traceback

HERE = os.path.dirname(os.path.dirname(os.path.abspath(__file__)))
if HERE not in sys.path:
    sys.path.insert(0, HERE)

from engine import loader  # noqa: E402


def _load(module_file):
    name = os.path.splitext(os.path.basename(module_file))[0]
    spec = importlib.util.spec_from_file_location(name, module_file)
    mod = importlib.util.module_from_spec(spec)
    sys.modules[name] = mod
    spec.loader.exec_module(mod)
    return mod


_CALL_RE = re.compile(r'when calling (\w+)\((.*?)\)(?: with (crosshair\.patch_to_return\(.*?\)))?'
                      r'(?: \(which (returns|raises) (.*)\))?\s*$', re.S)
PATCH_MARK = ' #@patch '


def parse_counterexample(message):
    """-> (call_args_source, outcome_text, function name) or None."""
    m = _CALL_RE.search(message)
    if not m:
        return None
    args = m.group(2)
    if m.group(3):   # values CrossHair chose for nondeterministic stdlib calls (e.g. time.time) on this path
        args += PATCH_MARK + m.group(3)
    return args, (m.group(4) or '') + ' ' + (m.group(5) or ''), m.group(1)


def analyze(module_file, fn_name, timeout, per_path):
    loader.install()
    import z3
    qstat = {'n': 0, 't': 0.0, 'unknown': 0}
    _orig_check = z3.Solver.check

    def _check(self, *a):
        t = time.perf_counter()
        r = _orig_check(self, *a)
        qstat['t'] += time.perf_counter() - t
        qstat['n'] += 1
        if str(r) == 'unknown':
            qstat['unknown'] += 1
        return r
    z3.Solver.check = _check

    from crosshair.core_and_libs import analyze_function, run_checkables
    from crosshair.options import AnalysisOptionSet
    mod = _load(module_file)
    ok, bad = loader.verify_pure()
    if not ok:
        return {'verdict': 'harness_error', 'reason': 'falcon not loaded from pure sources: %s' % bad[:3]}
    stats = collections.Counter()
    opts = AnalysisOptionSet(per_condition_timeout=timeout, report_all=True, stats=stats,
                             max_uninteresting_iterations=sys.maxsize)
    if per_path:
        opts.per_path_timeout = per_path
    t0 = time.time()
    out = []
    for one in fn_name.split(','):
        fn = getattr(mod, one)
        msgs = run_checkables(analyze_function(fn, opts))
        if not msgs:
            out.append({'state': 'SYNTAX_ERR', 'message': 'no contract found on %s' % one, 'line': 0, 'trace': '', 'fn': one})
        for m in msgs:
            out.append({'state': m.state.name, 'message': m.message, 'line': m.line,
                        'trace': (m.traceback or '')[-1500:], 'fn': one})
    dt = time.time() - t0
    return {'messages': out, 'stats': {k: v for k, v in stats.items()}, 'queries': qstat['n'],
            'solver_s': round(qstat['t'], 3), 'solver_unknown': qstat['unknown'],
            'elapsed_s': round(dt, 2)}


def replay(module_file, fn_name, args_src):
    os.environ['VERIF_CONCRETE'] = '1'
    loader.install(engine_patch=False)
    mod = _load(module_file)
    ok, bad = loader.verify_pure()
    if not ok:
        return {'error': 'falcon not loaded from pure sources: %s' % bad[:3]}
    fn = getattr(mod, fn_name)
    from engine import rt
    ns = dict(vars(mod))
    ns['float'] = float
    patch_src = None
    if PATCH_MARK in args_src:
        args_src, patch_src = args_src.split(PATCH_MARK, 1)
    try:
        args, kwargs = eval('(lambda *a, **k: (a, k))(%s)' % args_src, ns)
        patch_ctx = contextlib.nullcontext()
        if patch_src:
            import crosshair
            pns = {'crosshair': crosshair}
            for name in ('time', 'random', 'os', 'datetime', 'uuid', 'secrets'):
                pns[name] = __import__(name)
            patch_ctx = eval(patch_src, pns)
    except Exception as e:
        return {'error': 'cannot evaluate counterexample arguments: %r' % (e,), 'args_src': args_src}
    seen = set()

    def prof(frame, event, arg):
        if event == 'call':
            co = frame.f_code
            fnm = co.co_filename
            if '/falcon/' in fnm and fnm.startswith(loader.REPO):
                seen.add('%s:%s' % (fnm[len(loader.REPO) + 1:], co.co_qualname))
    res = {'args_src': args_src}
    sys.setprofile(prof)
    try:
        with patch_ctx:
            ret = fn(*args, **kwargs)
        res['ret'] = ret if isinstance(ret, (int, bool, str, type(None))) else repr(ret)
    except Exception as e:
        res['exc'] = '%s: %s' % (type(e).__name__, e)
        res['trace'] = traceback.format_exc()[-3000:]
    finally:
        sys.setprofile(None)
    res['notes'] = [str(n)[:2000] for n in rt.NOTES]
    res['functions'] = sorted(seen)
    return res


def main(argv):
    mode = argv[1]
    try:
        if mode == 'analyze':
            res = analyze(argv[2], argv[3], float(argv[4]), float(argv[5]) if len(argv) > 5 and argv[5] else None)
        elif mode == 'replay':
            src = sys.stdin.read() if argv[4] == '-' else open(argv[4]).read()
            try:
                d = json.loads(src)
                src = d['args_src']
            except (ValueError, KeyError, TypeError):
                pass
            res = replay(argv[2], argv[3], src)
        else:
            raise SystemExit('bad mode')
    except BaseException as e:  # engine crash: reported, never a pass
        res = {'verdict': 'engine_error', 'reason': '%s: %s' % (type(e).__name__, e),
               'trace': traceback.format_exc()[-3000:]}
    sys.stdout.write('\nRESULT ' + json.dumps(res) + '\n')
    sys.stdout.flush()


if __name__ == '__main__':
    main(sys.argv)
