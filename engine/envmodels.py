"""Deterministic, harness-side server models: a PEP 3333 driver + monitor and an
ASGI HTTP driver + monitor (loop-free trampoline).  Neither uses falcon.testing
(which is itself under test in C06)."""
import io

from engine.rt import run_coro


class ProtocolError(Exception):
    """The application broke the server protocol (PEP 3333 / ASGI)."""


class WouldBlock(Exception):
    """receive() awaited although no further event will ever arrive."""


# ---------------------------------------------------------------- WSGI
class WsgiResult:
    def __init__(self):
        self.status = None
        self.headers = None
        self.body = b''
        self.chunks = []
        self.start_calls = 0
        self.closed = 0
        self.iter_error = None

    @property
    def status_code(self):
        return int(self.status[:3])

    def header(self, name):
        name = name.lower()
        vals = [v for k, v in self.headers if k.lower() == name]
        return vals[0] if vals else None

    def header_all(self, name):
        name = name.lower()
        return [v for k, v in self.headers if k.lower() == name]


def make_environ(method='GET', path='/', query='', headers=(), body=b'', scheme='http', host='falconframework.org',
                 port=80, script_name='', input_stream=None, extra=None):
    """A spec-faithful environ.  headers: iterable of (name, value) with native-str values."""
    env = {
        'REQUEST_METHOD': method,
        'SCRIPT_NAME': script_name,
        'PATH_INFO': path,
        'QUERY_STRING': query,
        'SERVER_NAME': host,
        'SERVER_PORT': str(port),
        'SERVER_PROTOCOL': 'HTTP/1.1',
        'REMOTE_ADDR': '127.0.0.1',
        'wsgi.version': (1, 0),
        'wsgi.url_scheme': scheme,
        'wsgi.input': input_stream if input_stream is not None else io.BytesIO(body),
        'wsgi.errors': io.StringIO(),
        'wsgi.multithread': False,
        'wsgi.multiprocess': False,
        'wsgi.run_once': False,
    }
    have_host = False
    for name, value in headers:
        key = name.upper().replace('-', '_')
        if key in ('CONTENT_TYPE', 'CONTENT_LENGTH'):
            env[key] = value
            continue
        key = 'HTTP_' + key
        if key == 'HTTP_HOST':
            have_host = True
        if key in env:
            env[key] = env[key] + ',' + value  # a server joins repeated fields with a comma
        else:
            env[key] = value
    if not have_host:
        env['HTTP_HOST'] = host if port in (80, 443) else '%s:%d' % (host, port)
    if body and 'CONTENT_LENGTH' not in env:
        env['CONTENT_LENGTH'] = str(len(body))
    if extra:
        env.update(extra)
    return env


def wsgi_call(app, env, fail_iter_at=0, file_wrapper=None):
    """Run one request the way a PEP 3333 server must.  Raises ProtocolError on a protocol breach;
    exceptions escaping the app callable propagate to the caller."""
    res = WsgiResult()

    def start_response(status, headers, exc_info=None):
        res.start_calls += 1
        if res.start_calls > 1 and exc_info is None:
            raise ProtocolError('start_response called twice without exc_info')
        if not isinstance(status, str):
            raise ProtocolError('status is not a native string: %r' % (status,))
        if len(status) < 4 or not status[:3].isdigit() or status[3] != ' ':
            raise ProtocolError('malformed status line: %r' % (status,))
        if not isinstance(headers, list):
            raise ProtocolError('headers is not a list')
        for item in headers:
            if not isinstance(item, tuple) or len(item) != 2:
                raise ProtocolError('header item is not a 2-tuple: %r' % (item,))
            k, v = item
            if type(k) is not str or type(v) is not str:
                raise ProtocolError('header name/value is not a native str: %r' % (item,))
        res.status = status
        res.headers = list(headers)
        return lambda data: None

    if file_wrapper is not None:
        env['wsgi.file_wrapper'] = file_wrapper
    it = app(env, start_response)
    try:
        if res.start_calls == 0:
            raise ProtocolError('start_response was not called before the app returned')
        n = 0
        for chunk in it:
            n += 1
            if type(chunk) is not bytes:
                raise ProtocolError('body chunk is not bytes: %r' % (type(chunk),))
            res.chunks.append(chunk)
    finally:
        close = getattr(it, 'close', None)
        if close is not None:
            close()
            res.closed += 1
    res.body = b''.join(res.chunks)
    return res


# ---------------------------------------------------------------- ASGI
class AsgiResult:
    def __init__(self):
        self.events = []
        self.status = None
        self.headers = None
        self.body = b''
        self.chunks = []

    @property
    def status_code(self):
        return self.status

    def header(self, name):
        name = name.lower().encode('latin-1')
        vals = [v for k, v in self.headers if k == name]
        return vals[0].decode('latin-1') if vals else None

    def header_all(self, name):
        name = name.lower().encode('latin-1')
        return [v.decode('latin-1') for k, v in self.headers if k == name]


def make_scope(method='GET', path='/', query=b'', headers=(), scheme='http', host='falconframework.org', port=80,
               root_path='', http_version='1.1', raw_path=None, client=('127.0.0.1', 60000), extra=None):
    """headers: iterable of (name, value) native strs -> lower-cased latin-1 byte pairs, as an ASGI server does."""
    hs = []
    have_host = False
    for name, value in headers:
        n = name.lower().encode('latin-1')
        if n == b'host':
            have_host = True
        hs.append((n, value.encode('latin-1')))
    if not have_host:
        hs.append((b'host', (host if port in (80, 443) else '%s:%d' % (host, port)).encode('latin-1')))
    scope = {
        'type': 'http',
        'asgi': {'version': '3.0', 'spec_version': '2.1'},
        'http_version': http_version,
        'method': method,
        'scheme': scheme,
        'path': path,
        'query_string': query,
        'root_path': root_path,
        'headers': hs,
        'server': (host, port),
        'client': client,
    }
    if raw_path is not None:
        scope['raw_path'] = raw_path
    if extra:
        scope.update(extra)
    return scope


def asgi_call(app, scope, body_events=None, fail_send_at=0, send_error=None):
    """Drive one HTTP request through an ASGI app on the loop-free trampoline.

    body_events: list of ASGI receive events (default: one empty http.request); after them the client stays
    connected and silent, i.e. a further receive() would block forever -> WouldBlock, unless the last event is an
    http.disconnect.  fail_send_at=k: the k-th send() raises send_error."""
    res = AsgiResult()
    events = list(body_events) if body_events is not None else [{'type': 'http.request', 'body': b'', 'more_body': False}]
    state = {'i': 0, 'sends': 0, 'started': False, 'done': False}

    async def receive():
        if state['i'] < len(events):
            ev = events[state['i']]
            state['i'] += 1
            return ev
        if events and events[-1]['type'] == 'http.disconnect':
            return events[-1]
        raise WouldBlock()

    async def send(ev):
        state['sends'] += 1
        if fail_send_at and state['sends'] == fail_send_at:
            raise (send_error or OSError('client went away'))
        t = ev.get('type')
        if state['done']:
            raise ProtocolError('event sent after the response was completed: %r' % (t,))
        if t == 'http.response.start':
            if state['started']:
                raise ProtocolError('second http.response.start')
            state['started'] = True
            if type(ev['status']) is not int:
                raise ProtocolError('status is not an int')
            for item in ev.get('headers', []):
                k, v = item
                if type(k) is not bytes or type(v) is not bytes:
                    raise ProtocolError('header pair is not bytes: %r' % (item,))
                if k != k.lower():
                    raise ProtocolError('header name is not lower case: %r' % (k,))
            res.status = ev['status']
            res.headers = [(k, v) for k, v in ev.get('headers', [])]
        elif t == 'http.response.body':
            if not state['started']:
                raise ProtocolError('body event before http.response.start')
            b = ev.get('body', b'')
            if type(b) is not bytes:
                raise ProtocolError('body is not bytes')
            res.chunks.append(b)
            if not ev.get('more_body', False):
                state['done'] = True
        else:
            raise ProtocolError('unexpected event type %r' % (t,))
        res.events.append(ev)

    run_coro(app(scope, receive, send))
    res.body = b''.join(res.chunks)
    res.completed = state['done']
    res.started = state['started']
    return res


# ---------------------------------------------------------------- deterministic event loop
import asyncio  # noqa: E402
import collections  # noqa: E402
from asyncio import events as _events  # noqa: E402


class MiniLoop(asyncio.AbstractEventLoop):
    """40-line deterministic loop: FIFO ready queue exactly like asyncio's, futures and tasks from asyncio itself.
    The harness decides, step by step, whether to run the next ready callback or to let the *environment* act
    (resolve an outstanding server receive()), so interleavings become solver variables."""

    def __init__(self):
        self._ready = collections.deque()
        self.steps = 0
        self.tasks = []     # every task ever created on this loop (leftover-task checks)

    def get_debug(self):
        return False

    def is_running(self):
        return True

    def is_closed(self):
        return False

    def time(self):
        return 0.0

    def create_future(self):
        return asyncio.Future(loop=self)

    def create_task(self, coro, *, name=None, context=None):
        t = asyncio.Task(coro, loop=self, name=name)
        self.tasks.append(t)
        return t

    def call_soon(self, cb, *args, context=None):
        h = _events.Handle(cb, args, self, context)
        self._ready.append(h)
        return h

    def call_exception_handler(self, ctx):
        pass   # aborted symbolic paths destroy pending tasks; nothing to report

    def drain(self, limit=200):
        """run ready callbacks until none is left (no environment action in between)"""
        n = 0
        while self._ready and n < limit:
            self.run_one()
            n += 1
        return not self._ready

    def leftover_tasks(self):
        return [t for t in self.tasks if not t.done()]

    def run_one(self):
        h = self._ready.popleft()
        self.steps += 1
        if not h._cancelled:
            h._run()
        return h


class running_loop:
    def __init__(self, loop):
        self.loop = loop

    def __enter__(self):
        _events._set_running_loop(self.loop)
        return self.loop

    def __exit__(self, *a):
        _events._set_running_loop(None)
