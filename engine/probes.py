"""Micro-probes for the engine patches of engine/loader.py (run: ./vcheck --selftest).

Each function carries a contract whose expected verdict is known: CONFIRMED for the semantic identities the patches
must preserve, POST_FAIL for the ones that must stay refutable (so that a patch cannot "fix" things by making
everything true).  They were the regression set while the patches were developed.
"""
EXPECT = {}


def _exp(v):
    def deco(f):
        EXPECT[f.__name__] = v
        return f
    return deco


@_exp('CONFIRMED')
def split_join_count(b: bytes) -> int:
    """
    pre: len(b) == 4
    post: _ != 0
    """
    t = b.split(b'%')
    if len(t) != b.count(b'%') + 1:
        return 0
    return 1 if b'%'.join(t) == b else 0


@_exp('CONFIRMED')
def not_bytes_value(b: bytes) -> int:
    """
    pre: len(b) <= 2
    post: _ != 0
    """
    x = not b
    return 1 if x == (len(b) == 0) else 0


@_exp('CONFIRMED')
def bracket_slice_eq(name: str) -> int:
    """
    pre: len(name) == 1
    post: _ != 0
    """
    host = '[' + name + ':' + name + ']'
    return 1 if host[1:-1] == name + ':' + name else 0


@_exp('CONFIRMED')
def assoc_concat_eq(p: str, q: str) -> int:
    """
    pre: len(p) <= 1 and len(q) == 1
    post: _ != 0
    """
    P = '/' + p
    return 1 if (P + '?' + q) == (P + ('?' + q)) else 0


@_exp('POST_FAIL')
def concat_ne_is_refutable(p: str, q: str) -> int:
    """
    pre: len(p) <= 1 and len(q) == 1
    post: _ != 0
    """
    a = '/' + p + ('?' + q)
    b = ('/' + p) + '?' + q
    return 1 if a != b else 0


@_exp('POST_FAIL')
def concat_eq_is_refutable(p: str, q: str) -> int:
    """
    pre: len(p) == 1 and len(q) == 1
    post: _ != 0
    """
    return 1 if ('/' + p + 'x') == ('/' + q + 'x') else 0


@_exp('CONFIRMED')
def groupdict_substrings(s: str) -> int:
    """
    pre: len(s) == 3
    post: _ != 0
    """
    import re
    m = re.match(r'(?P<a>.)(?P<b>.+)', s)
    if m is None:
        return 1
    d = m.groupdict()
    return 1 if d['a'] == m.group('a') == s[0] and d['b'] == m.group('b') and s.startswith(d['a'] + d['b']) else 0


@_exp('CONFIRMED')
def clamped_slice(data: bytes, n: int) -> int:
    """
    pre: len(data) == 4
    pre: 0 <= n
    post: _ != 0
    """
    nn = n if n <= 4 else 4
    return 1 if data[:nn] == data[:nn] and len(data[:nn]) == nn else 0


@_exp('CONFIRMED')
def pick_exhausts(a: int, b: bool) -> int:
    """
    pre: 0 <= a <= 5
    post: _ != 0
    """
    from engine.rt import notrace, pick, pickb
    a, b = pick(a, 0, 5), pickb(b)
    with notrace():
        x = a + (1 if b else 0)
    return 1 if 0 <= x <= 6 else 0
