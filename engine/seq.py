"""Context-bounded sequentialization of the router's lazy-compile path (C19, thread part).

The CURRENT source of CompiledRouter.find / _compile_and_find / _compile / _generate_ast / _generate_conversion_ast is
re-written by an AST transformer into generators with a pre-emption point (yield) before every statement; calls between
these methods are delegated (yield from); ``with self._compile_lock`` becomes an acquire on a model lock (a blocked thread
yields 'blocked').  Threads are generators, a schedule is the set of step numbers at which the running thread is
pre-empted.  If the transformer meets a locking construct outside its subset it raises (harness error, never a pass).
"""
import ast
import inspect
import textwrap

NAMES = ['find', '_compile_and_find', '_compile', '_generate_ast', '_generate_conversion_ast']


class ModelLock:
    def __init__(self):
        self.held = False


def _acquire(lock):
    while lock.held:
        yield 'blocked'
    lock.held = True


def _gcall(f, *a, **k):
    r = f(*a, **k)
    if inspect.isgenerator(r):
        r = yield from r
    return r


class Unsupported(Exception):
    pass


class _T(ast.NodeTransformer):
    def visit_FunctionDef(self, node):
        if node.name not in NAMES:
            return node  # nested helper functions / lambdas stay atomic
        self.generic_visit(node)
        node.body = self._instr(node.body)
        node.decorator_list = []
        node.returns = None
        for a in node.args.args + node.args.kwonlyargs:
            a.annotation = None
        return node

    def _instr(self, body):
        out = []
        for st in body:
            out.append(ast.Expr(ast.Yield(ast.Constant('pp'))))
            for fld in ('body', 'orelse', 'finalbody'):
                if hasattr(st, fld) and isinstance(getattr(st, fld), list) and not isinstance(st, (ast.FunctionDef, ast.ClassDef)):
                    setattr(st, fld, self._instr(getattr(st, fld)) if getattr(st, fld) else [])
            if isinstance(st, ast.Try):
                for h in st.handlers:
                    h.body = self._instr(h.body)
            if isinstance(st, ast.With):
                lockish = [i for i in st.items if 'lock' in ast.unparse(i.context_expr).lower()]
                if lockish:
                    if len(st.items) != 1 or not (isinstance(st.items[0].context_expr, ast.Attribute) and
                                                  st.items[0].context_expr.attr == '_compile_lock'):
                        raise Unsupported('locking construct outside the subset: %s' % ast.unparse(st.items[0].context_expr))
                    acq = ast.Expr(ast.YieldFrom(ast.Call(ast.Name('_acquire', ast.Load()), [st.items[0].context_expr], [])))
                    rel = ast.parse('self._compile_lock.held = False').body[0]
                    st = ast.Try(body=st.body, handlers=[], orelse=[], finalbody=[rel])
                    out.append(acq)
            out.append(st)
        return out

    def visit_Call(self, node):
        self.generic_visit(node)
        f = node.func
        if isinstance(f, ast.Attribute) and f.attr in ('acquire', 'release') and 'lock' in ast.unparse(f.value).lower():
            raise Unsupported('explicit %s() on a lock' % f.attr)
        if isinstance(f, ast.Attribute) and isinstance(f.value, ast.Name) and f.value.id == 'self' and f.attr in NAMES + ['_find']:
            return ast.YieldFrom(ast.Call(ast.Name('_gcall', ast.Load()), [f] + node.args, node.keywords))
        return node


def build(compiled_module):
    """-> SeqRouter class generated from the module's CURRENT source."""
    C = compiled_module
    ns = dict(C.__dict__)
    ns.update(_gcall=_gcall, _acquire=_acquire)
    methods = {}
    for n in NAMES:
        src = textwrap.dedent(inspect.getsource(getattr(C.CompiledRouter, n)))
        tree = _T().visit(ast.parse(src))
        ast.fix_missing_locations(tree)
        exec(compile(tree, '<seq:%s>' % n, 'exec'), ns)
        methods[n] = ns[n]

    class SeqRouter(C.CompiledRouter):
        __slots__ = ()
    for n, f in methods.items():
        setattr(SeqRouter, n, f)
    return SeqRouter


def run_threads(router, paths, switches, start=0):
    """Run one find(path) per thread; pre-empt the running thread at the step numbers in ``switches``.
    -> (results, steps, errors)"""
    router._compile_lock = ModelLock()
    gens = [router.find(p) for p in paths]
    n = len(gens)
    res = [None] * n
    err = [None] * n
    done = [False] * n
    blocked = [False] * n
    cur = start
    step = 0
    while not all(done):
        if done[cur] or step in switches or blocked[cur]:
            cand = [(cur + d) % n for d in range(1, n) if not done[(cur + d) % n]] or [cur]
            cur = cand[0]
        step += 1
        try:
            v = next(gens[cur])
            blocked[cur] = (v == 'blocked')
        except StopIteration as e:
            res[cur] = e.value
            done[cur] = True
        except Exception as e:  # noqa: the thread died
            err[cur] = '%s: %s' % (type(e).__name__, e)
            done[cur] = True
        if step > 20000:
            raise RuntimeError('livelock')
    return res, step, err
