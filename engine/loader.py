"""Import policy for the code under analysis + the one engine patch.

* falcon is imported from the ``.py`` sources of /repo's working tree only:
  the untracked cythonized ``*.so`` twins next to the sources are stale and
  cannot be executed symbolically, so ``.py`` loaders are moved in front of
  the extension loader for every ``FileFinder`` and ``falcon.cyutil`` (which has
  no ``.py`` twin) is blocked.
* CrossHair 0.0.110's symbolic ``re.Match.groupdict()`` returns spans instead
  of substrings; replaced by a correct 6-line version (trusted base).
"""
import importlib
import importlib.machinery as _mach
import os
import sys

REPO = os.environ.get('VERIF_REPO', '/repo')

ENGINE_PATCHES = [
    'crosshair.libimpl.relib._Match.groupdict returned spans instead of substrings -> replaced (6 lines)',
    'crosshair.opcode_intercept.BoolStashingValue.__bool__ failed on proxies without __bool__ (x = not symbolic_bytes) -> falls back to len()',
    'symbolic bytes.split(sep) realized the bytes -> find()-based definition for non-empty sep without maxsplit',
    'crosshair.simplestructs.SequenceConcatenation.__eq__ returned False for an empty concrete tail vs empty symbolic slice -> empty halves are skipped',
    'crosshair.libimpl.builtinslib.SymbolicBoundedIntTuple.__getitem__(slice) raised CrossHairInternal when more element variables had been '
    'created than the realized length (str.split(",") item .partition(";")) -> the slice is taken from the first len() variables',
]
_installed = False


def _prefer_py(finder):
    loaders = getattr(finder, '_loaders', None)
    if loaders is None:
        return
    # (suffix, loader) pairs; stable sort: source first, then bytecode, then ext
    def rank(item):
        suffix, _ = item
        if suffix in _mach.SOURCE_SUFFIXES:
            return 0
        if suffix in _mach.BYTECODE_SUFFIXES:
            return 1
        return 2
    loaders.sort(key=rank)


def install(engine_patch=True):
    """Idempotent.  Must run before the first ``import falcon``."""
    global _installed
    if _installed:
        return
    _installed = True
    if 'falcon' in sys.modules:
        raise RuntimeError('falcon imported before loader.install()')
    sys.modules['falcon.cyutil'] = None  # no .py twin: block the Cython helpers
    # Make sure /repo's working tree is what "import falcon" finds.
    if REPO not in sys.path:
        sys.path.insert(0, REPO)
    else:
        sys.path.remove(REPO)
        sys.path.insert(0, REPO)
    sys.path_importer_cache.clear()
    orig_hook_list = list(sys.path_hooks)

    def wrap(hook):
        def hooked(path):
            finder = hook(path)
            _prefer_py(finder)
            return finder
        return hooked
    sys.path_hooks[:] = [wrap(h) for h in orig_hook_list]
    importlib.invalidate_caches()
    # logging gets an empty body (a LogRecord reads time.time(), which CrossHair models as a fresh symbolic float:
    # every logged error would turn the path tree infinite); listed as a stub in every evidence file
    import logging
    logging.disable(logging.CRITICAL)
    if engine_patch:
        patch_crosshair()


def patch_crosshair():
    try:
        import crosshair.libimpl.relib as _relib
    except Exception:  # crosshair absent (plain replay interpreter): nothing to patch
        return

    def _fixed_groupdict(self, default=None):
        ret = {}
        for name, idx in self.re.groupindex.items():
            span = self._groups[idx]
            ret[name] = default if span is None else self.string[span[0]:span[1]]
        return ret
    _relib._Match.groupdict = _fixed_groupdict

    # CrossHair 0.0.110: ``x = not seq`` (UNARY_NOT whose result is used as a value)
    # calls ``seq.__bool__()`` directly; symbolic bytes/str/list proxies only define
    # ``__len__`` -> spurious AttributeError.  Fall back to the language rule.
    import crosshair.opcode_intercept as _oi
    from crosshair.tracers import NoTracing as _NoTracing
    from crosshair.z3util import z3Not as _z3Not

    def _stash_bool(self):
        v = self.value
        if hasattr(type(v), '__bool__'):
            stashed = v.__bool__()
        elif hasattr(type(v), '__len__'):
            stashed = (v.__len__() != 0)
        else:
            stashed = True
        with _NoTracing():
            if self.negate:
                if isinstance(stashed, _oi.SymbolicBool):
                    self.stashed_bool = _oi.SymbolicBool(_z3Not(stashed.var))
                else:
                    self.stashed_bool = not stashed
            else:
                self.stashed_bool = stashed
        return True
    _oi.BoolStashingValue.__bool__ = _stash_bool

    # CrossHair 0.0.110: symbolic ``bytes.split(sep)`` falls back to realizing the
    # bytes (value enumeration).  Provide the find()-based definition of the
    # language semantics for a non-empty separator and no maxsplit.
    import crosshair.libimpl.builtinslib as _bl

    def _bytes_split(self, sep=None, maxsplit=-1):
        if sep is None or maxsplit != -1 or not isinstance(sep, (bytes, bytearray)):
            return bytes(self).split(sep, maxsplit)
        n = len(sep)
        if n == 0:
            raise ValueError('empty separator')
        parts = []
        rest = self
        while True:
            i = rest.find(sep)
            if i == -1:
                parts.append(rest)
                return parts
            parts.append(rest[:i])
            rest = rest[i + n:]
    _bl.BytesLike.split = _bytes_split

    # CrossHair 0.0.110: SequenceConcatenation.__eq__ compares ``second == other[firstlen:]``
    # with the concrete operand on the left; for an empty concrete tail against an
    # empty symbolic slice this yields False (``('[' + s + ']')[1:-1] == s`` refuted
    # spuriously).  Compare with the symbolic operand on the left and skip empty halves.
    import crosshair.simplestructs as _ss

    def _concat_eq(self, other):
        with _NoTracing():
            if not hasattr(other, '__len__'):
                return False
            first, second = self._first, self._second
        if self.__len__() != other.__len__():
            return False
        firstlen = first.__len__()
        secondlen = second.__len__()
        # original operand order; only the empty halves (the failing case) are skipped
        if secondlen == 0:
            return first == other
        if firstlen == 0:
            return second == other
        return first == other[:firstlen] and second == other[firstlen:]
    if os.environ.get('VERIF_NO_CONCAT_PATCH') != '1':
        _ss.SequenceConcatenation.__eq__ = _concat_eq

    # CrossHair 0.0.110: SymbolicBoundedIntTuple.__getitem__(slice), fallback branch: after realizing the exact length it
    # raises CrossHairInternal if MORE element variables exist than that length (they were created speculatively by an
    # earlier prefix access).  The surplus variables are unconstrained and not part of the value: slice the first len().
    import crosshair.libimpl.builtinslib as _bl2
    from crosshair.util import CrossHairInternal as _CHI
    from crosshair.core import realize as _realize
    _orig_getitem = _bl2.SymbolicBoundedIntTuple.__getitem__

    def _bounded_getitem(self, argument):
        try:
            return _orig_getitem(self, argument)
        except _CHI as e:
            if '_created_vars exceeded actual length' not in str(e) or not isinstance(argument, slice):
                raise
            with _NoTracing():
                n = _realize(self._len)
                start, stop, step = _realize(argument.start), _realize(argument.stop), _realize(argument.step)
                return self._created_vars[:n][start:stop:step]
    _bl2.SymbolicBoundedIntTuple.__getitem__ = _bounded_getitem


def verify_pure():
    """Return (ok, detail): falcon must come from REPO's .py files."""
    import falcon
    import falcon.app
    import falcon.request
    import falcon.routing.compiled
    import falcon.util.uri
    import falcon.util.reader
    bad = []
    for m in list(sys.modules.values()):
        name = getattr(m, '__name__', '')
        if not name.startswith('falcon'):
            continue
        f = getattr(m, '__file__', None)
        if f is None:
            continue
        if not f.startswith(REPO + '/'):
            bad.append('%s from %s' % (name, f))
        elif not f.endswith('.py'):
            bad.append('%s is compiled: %s' % (name, f))
    return (not bad, bad)
