"""Import policy for the code under analysis + the one engine patch.

* falcon is imported from the ``.py`` sources of /repo's working tree only:
  the untracked cythonized ``*.so`` twins next to the sources are stale and
  cannot be executed symbolically, so ``.py`` loaders are moved in front of
  the extension loader for every ``FileFinder`` and ``falcon.cyutil`` (which has
  no ``.py`` twin) is blocked.
* CrossHair 0.0.110's symbolic ``re.Match.groupdict()`` returns spans instead
  of substrings; replaced by a correct 6-line version (trusted base).
"""
import importlib
import importlib.machinery as _mach
import os
import sys

REPO = os.environ.get('VERIF_REPO', '/repo')
_installed = False


def _prefer_py(finder):
    loaders = getattr(finder, '_loaders', None)
    if loaders is None:
        return
    # (suffix, loader) pairs; stable sort: source first, then bytecode, then ext
    def rank(item):
        suffix, _ = item
        if suffix in _mach.SOURCE_SUFFIXES:
            return 0
        if suffix in _mach.BYTECODE_SUFFIXES:
            return 1
        return 2
    loaders.sort(key=rank)


def install(engine_patch=True):
    """Idempotent.  Must run before the first ``import falcon``."""
    global _installed
    if _installed:
        return
    _installed = True
    if 'falcon' in sys.modules:
        raise RuntimeError('falcon imported before loader.install()')
    sys.modules['falcon.cyutil'] = None  # no .py twin: block the Cython helpers
    # Make sure /repo's working tree is what "import falcon" finds.
    if REPO not in sys.path:
        sys.path.insert(0, REPO)
    else:
        sys.path.remove(REPO)
        sys.path.insert(0, REPO)
    sys.path_importer_cache.clear()
    orig_hook_list = list(sys.path_hooks)

    def wrap(hook):
        def hooked(path):
            finder = hook(path)
            _prefer_py(finder)
            return finder
        return hooked
    sys.path_hooks[:] = [wrap(h) for h in orig_hook_list]
    importlib.invalidate_caches()
    if engine_patch:
        patch_crosshair()


def patch_crosshair():
    try:
        import crosshair.libimpl.relib as _relib
    except Exception:  # crosshair absent (plain replay interpreter): nothing to patch
        return

    def _fixed_groupdict(self, default=None):
        ret = {}
        for name, idx in self.re.groupindex.items():
            span = self._groups[idx]
            ret[name] = default if span is None else self.string[span[0]:span[1]]
        return ret
    _relib._Match.groupdict = _fixed_groupdict


def verify_pure():
    """Return (ok, detail): falcon must come from REPO's .py files."""
    import falcon
    import falcon.app
    import falcon.request
    import falcon.routing.compiled
    import falcon.util.uri
    import falcon.util.reader
    bad = []
    for m in list(sys.modules.values()):
        name = getattr(m, '__name__', '')
        if not name.startswith('falcon'):
            continue
        f = getattr(m, '__file__', None)
        if f is None:
            continue
        if not f.startswith(REPO + '/'):
            bad.append('%s from %s' % (name, f))
        elif not f.endswith('.py'):
            bad.append('%s is compiled: %s' % (name, f))
    return (not bad, bad)
