"""Run-time helpers shared by harness bodies (safe under CrossHair tracing).

Harness return codes:  0 = falcon and the oracle disagree (violation)
                       1 = reached the final comparison and agreed
                       2 = input skipped by a stated assumption
"""
import os

CONCRETE = os.environ.get('VERIF_CONCRETE') == '1'
NOTES = []


def fail(msg):
    """Record why the harness is about to return 0.

    ``msg`` may be a callable so that nothing is formatted while symbolic
    values are live (formatting realizes them); it is only evaluated in the
    concrete replay interpreter.
    """
    if os.environ.get('VERIF_DEBUG_FAIL') == '1' and not CONCRETE:
        # debugging aid: tell which check tripped under symbolic execution (static text only)
        import sys
        f = sys._getframe(1)
        raise AssertionError('fail() called at %s:%d' % (f.f_code.co_filename.rsplit('/', 1)[-1], f.f_lineno))
    if CONCRETE:
        try:
            NOTES.append(msg() if callable(msg) else msg)
        except Exception as e:  # pragma: no cover
            NOTES.append('<note failed: %r>' % (e,))
    return 0


class HarnessSkip(Exception):
    """Raised by harness helpers for inputs outside a stated assumption."""


def run_coro(coro, max_steps=100000):
    """Loop-free trampoline: drive a coroutine whose only awaitables are the
    harness's own (never suspending) coroutines.  A real suspension means the
    code depends on an event loop -> harness error, not a pass."""
    try:
        n = 0
        while True:
            y = coro.send(None)
            n += 1
            if n > max_steps:
                raise RuntimeError('trampoline step budget exceeded (%r)' % (y,))
            # bare ``yield`` from asyncio.sleep(0)-style awaitables is tolerated
            if y is not None:
                raise RuntimeError('coroutine suspended on %r: needs an event loop' % (y,))
    except StopIteration as e:
        return e.value
    finally:
        coro.close()


class PyBytesIO:
    """Pure-Python stand-in for io.BytesIO (the C class realizes symbolic bytes,
    which turns every byte into a 256-way enumeration).  Supports exactly what
    falcon's readers/streams use: BytesIO([initial]), write, seek, tell,
    getvalue, read, and append-at-end semantics after seek(len)."""

    def __init__(self, initial=b''):
        self._v = initial
        self._pos = 0

    def write(self, data):
        n = len(data)
        if self._pos == len(self._v):
            self._v = self._v + data
        else:
            self._v = self._v[:self._pos] + data + self._v[self._pos + n:]
        self._pos += n
        return n

    def seek(self, pos, whence=0):
        if whence == 0:
            self._pos = pos
        elif whence == 1:
            self._pos += pos
        else:
            self._pos = len(self._v) + pos
        return self._pos

    def tell(self):
        return self._pos

    def getvalue(self):
        return self._v

    def read(self, size=-1):
        if size is None or size < 0:
            r = self._v[self._pos:]
        else:
            r = self._v[self._pos:self._pos + size]
        self._pos += len(r)
        return r


class FakeIO:
    """Namespace replacing the ``io`` module reference inside a falcon module."""

    def __init__(self, real_io):
        self._real = real_io
        self.BytesIO = PyBytesIO

    def __getattr__(self, name):
        return getattr(self._real, name)


def notrace():
    """Context manager: suspend CrossHair's tracing for purely concrete set-up code (building routers, apps ...).
    Tracing concrete code costs ~100x; nothing symbolic may be touched inside."""
    if CONCRETE:
        import contextlib
        return contextlib.nullcontext()
    try:
        from crosshair.tracers import NoTracing
        return NoTracing()
    except Exception:  # pragma: no cover
        import contextlib
        return contextlib.nullcontext()


def pick(x, lo, hi):
    """Exhaustive realization of a small symbolic int: one solver-decided branch per value in [lo, hi]
    (crosshair.realize() samples without ever exhausting; this forks and therefore can be *confirmed*)."""
    if isinstance(x, bool) or (lo == 0 and hi == 1 and not isinstance(x, int)):
        return True if x else False
    for v in range(lo, hi + 1):
        if x == v:
            return v
    raise AssertionError('pick(): value outside [%d, %d]' % (lo, hi))


def pickb(x):
    return True if x else False
