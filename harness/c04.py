"""C04 -- every raised exception becomes the response its most specific handler defines.

Real code: App._handle_exception/_find_error_handler/add_error_handler, App.__call__ error paths (WSGI + ASGI),
app_helpers.default_serialize_error, HTTPError.to_dict/to_json, HTTPStatus handling.
(1) handler selection over a class lattice and a registration/raise HISTORY on one app instance
(2) default rendering of HTTPError with symbolic title/description/code and Accept from a menu
(3) any other Exception -> 500 and nothing escapes the app callable.
"""
import engine.loader as _l
_l.install()

import json  # noqa: E402

import falcon  # noqa: E402
import falcon.asgi  # noqa: E402

from engine.envmodels import asgi_call, make_environ, make_scope, wsgi_call  # noqa: E402
from engine.rt import fail, notrace, pick, pickb  # noqa: E402
from engine.driver import known_findings as _kf  # noqa: E402

LISTED = set(_kf()[0].get('C04', {}))

PROPERTY = 'C04'
UNITS = ['falcon.app.App.add_error_handler/_find_error_handler/_handle_exception/_http_error_handler/_http_status_handler/'
         '_python_error_handler', 'falcon.asgi.app.App (same)', 'falcon.app_helpers.default_serialize_error',
         'falcon.http_error.HTTPError.to_dict/to_json', 'falcon.http_status.HTTPStatus']
STUBS = [
    'handler-selection histories consist of menu indexes only (exception class, raise site, registration class, handler behaviour): '
    'every index is realized by the solver, then the scenario runs on a FRESH app instance outside tracing -- a finite table '
    'exhausted row by row (stated as such in the evidence)',
    'default rendering: JSON bodies are produced and parsed through CrossHair\'s bundled pure-Python json model when title/description '
    'are symbolic (the C accelerator cannot take symbolic strings)',
    'logging of unhandled errors is left as is (it formats a traceback; no symbolic data involved)',
]
OUTSIDE = ['faithfulness of the XML encoding for all strings (xml.etree is the C _elementtree: only menu strings are exercised)',
           'custom error serializers', 'class hierarchies beyond the lattice', 'title/description longer than 2 characters']
BUDGET = {'quick': 300, 'thorough': 900}


class Base(Exception):
    pass


class A(Base):
    pass


class B(Base):
    pass


class C(A, B):
    pass


class H(falcon.HTTPError):
    pass


class N(falcon.HTTPNotFound):
    pass


class S(falcon.HTTPStatus):
    pass


CLASSES = [Exception, Base, A, B, C, falcon.HTTPError, H, falcon.HTTPNotFound, N, falcon.HTTPStatus, S]


def mk_exc(i):
    cls = CLASSES[i]
    if cls in (falcon.HTTPError, H):
        return cls(falcon.HTTP_418, title='teapot')
    if cls in (falcon.HTTPStatus, S):
        return cls(falcon.HTTP_202, headers={'X-S': '1'}, text='status-text')
    return cls()


SITES = ['mw.process_request', 'mw.process_resource', 'before hook', 'responder', 'mw.process_response']


def _build(asgi, state):
    """state: dict with 'raise' = (class idx, site) read at call time, 'called' list."""
    def raise_if(site, resp):
        r = state.get('raise')
        if r and r[1] == site:
            # body parts set so far must be discarded by the framework before the handler runs
            if site % 3 == 0:
                resp.text = 'stale-text'
            elif site % 3 == 1:
                resp.data = b'stale-data'
            else:
                resp.media = {'stale': 'media'}
            raise mk_exc(r[0])
    if asgi:
        class MW:
            async def process_request(self, req, resp):
                raise_if(0, resp)

            async def process_resource(self, req, resp, resource, params):
                raise_if(1, resp)

            async def process_response(self, req, resp, resource, ok):
                raise_if(4, resp)

        async def hook(req, resp, resource, params):
            raise_if(2, resp)

        class Res:
            @falcon.before(hook)
            async def on_get(self, req, resp):
                resp.media = {'pre': 1}
                raise_if(3, resp)
    else:
        class MW:
            def process_request(self, req, resp):
                raise_if(0, resp)

            def process_resource(self, req, resp, resource, params):
                raise_if(1, resp)

            def process_response(self, req, resp, resource, ok):
                raise_if(4, resp)

        def hook(req, resp, resource, params):
            raise_if(2, resp)

        class Res:
            @falcon.before(hook)
            def on_get(self, req, resp):
                resp.media = {'pre': 1}
                raise_if(3, resp)
    app = (falcon.asgi.App if asgi else falcon.App)(middleware=[MW()])
    app.add_route('/x', Res())
    return app


def _mk_handler(asgi, hid, behaviour, state):
    """behaviour: 0 set body+status, 1 raise HTTPError(409), 2 raise HTTPStatus(203), 3 return without touching resp"""
    def body(req, resp, ex, params):
        state['called'].append(hid)
        if behaviour == 0:
            resp.status = 299
            resp.text = 'h%d' % hid
        elif behaviour == 1:
            raise falcon.HTTPConflict(title='from-handler')
        elif behaviour == 2:
            raise falcon.HTTPStatus(falcon.HTTP_203, text='from-handler')
    if asgi:
        async def handler(req, resp, ex, params):
            body(req, resp, ex, params)
        return handler
    return body


def _request(app, asgi):
    if asgi:
        return asgi_call(app, make_scope(path='/x'))
    return wsgi_call(app, make_environ(path='/x'))


def reg_menu(last):
    """Registration classes that can matter when CLASSES[last] is raised: its MRO within the lattice + one unrelated class."""
    m = [CLASSES.index(c) for c in CLASSES[last].__mro__ if c in CLASSES]
    for i, c in enumerate(CLASSES):
        if i not in m:
            m.append(i)
            break
    return m


def selection_case(asgi, steps, last):
    """steps: list of (0, menu idx, behaviour, iterable?) | (1, class idx, site).  Runs on one fresh app."""
    menu = reg_menu(last)
    steps = [((0, menu[pick(st[1], 0, len(menu) - 1)], pick(st[2], 0, 3), pickb(st[3])) if st[0] == 0
              else (1, st[1], pick(st[2], 0, 4))) for st in steps]
    with notrace():
        state = {'called': []}
        app = _build(asgi, state)
        table = {}          # class -> (handler id, behaviour): latest registration wins
        hid = 0
        for st in steps:
            if st[0] == 0:      # register
                cls = CLASSES[st[1]]
                beh = st[2]
                handler = _mk_handler(asgi, hid, beh, state)
                if st[3] and cls is not Exception:
                    app.add_error_handler((cls,), handler)      # iterable registration
                else:
                    app.add_error_handler(cls, handler)
                table[cls] = (hid, beh)
                hid += 1
                continue
            raised = CLASSES[st[1]]
            site = st[2]
            state['raise'] = (st[1], site)
            state['called'] = []
            res = _request(app, asgi)     # any exception escaping the app fails the harness
            exp = None
            for cls in raised.__mro__:
                if cls in table:
                    exp = table[cls]
                    break
                if cls in (Exception, falcon.HTTPError, falcon.HTTPStatus):
                    break
            body = res.body
            if b'stale' in body or b'"pre"' in body:
                return fail(lambda: 'body set before the raise survived: %r (steps %r)' % (body, steps))
            if exp is None:
                if state['called']:
                    return fail(lambda: 'steps %r: handler %r called, expected the default handling' % (steps, state['called']))
                if issubclass(raised, falcon.HTTPStatus):
                    want = 202
                elif issubclass(raised, falcon.HTTPNotFound):
                    want = 404
                elif issubclass(raised, falcon.HTTPError):
                    want = 418
                else:
                    want = 500
                if res.status_code != want:
                    return fail(lambda: 'steps %r: default handling gave %r, expected %d' % (steps, res.status, want))
                if want == 202 and (res.body != b'status-text' or res.header('X-S') != '1'):
                    return fail(lambda: 'HTTPStatus not rendered: %r %r' % (res.body, res.headers))
                continue
            ehid, beh = exp
            if state['called'] != [ehid]:
                return fail(lambda: 'steps %r: raised %s at %s -> handlers called %r, the nearest registered class designates #%d' % (
                    steps, raised.__name__, SITES[site], state['called'], ehid))
            want = {0: 299, 1: 409, 2: 203, 3: None}[beh]
            if want is not None and res.status_code != want:
                return fail(lambda: 'steps %r: handler behaviour %d -> status %r, expected %d' % (steps, beh, res.status, want))
            if beh == 0 and body != b'h%d' % ehid:
                return fail(lambda: 'handler body %r' % (body,))
            if beh == 2 and body != b'from-handler':
                return fail(lambda: 'HTTPStatus raised by the handler not rendered: %r' % (body,))
            if beh == 1:
                try:
                    doc = json.loads(body.decode())
                except ValueError:
                    doc = None
                if not doc or doc.get('title') != 'from-handler':
                    return fail(lambda: 'HTTPError raised by the handler not rendered: %r' % (body,))
    return 1


# ---------------------------------------------------------------- default rendering
ACCEPTS = [None, '*/*', 'application/json', 'application/xml', 'text/xml', 'a/b+json', 'a/b+xml', 'application/json;q=0.5, application/xml',
           'text/plain', 'application/json;q=0', 'nonsense', 'application/xml;q=0.5, application/json;q=0.5']
VARY_PRE = [None, 'Accept-Encoding', 'Accept-Language, Origin', 'Origin', 'accept']


class _ErrRes:
    def __init__(self, box):
        self.box = box

    def on_get(self, req, resp):
        b = self.box
        if b.get('vary') is not None:
            resp.set_header('Vary', b['vary'])
        raise falcon.HTTPError(b['status'], title=b['title'], description=b['description'], code=b['code'], headers=b['headers'],
                               href=b.get('href'))


class _ErrResAsync:
    def __init__(self, box):
        self.box = box

    async def on_get(self, req, resp):
        b = self.box
        if b.get('vary') is not None:
            resp.set_header('Vary', b['vary'])
        raise falcon.HTTPError(b['status'], title=b['title'], description=b['description'], code=b['code'], headers=b['headers'],
                               href=b.get('href'))


_RAPPS = {}
_BOX = {}


def _render_app(asgi):
    if asgi not in _RAPPS:
        with notrace():
            app = (falcon.asgi.App if asgi else falcon.App)()
            app.add_route('/e', (_ErrResAsync if asgi else _ErrRes)(_BOX))
            _BOX.update(status=418, title='t', description=None, code=None, headers=None, vary=None, href=None)
            if asgi:
                asgi_call(app, make_scope(path='/e'))
            else:
                wsgi_call(app, make_environ(path='/e'))
            _RAPPS[asgi] = app
    return _RAPPS[asgi]


def _vary_tokens(res):
    toks = []
    for v in res.header_all('Vary'):
        for t in v.split(','):
            toks.append(t.strip().lower())
    return toks


def render_case(asgi, si, title, use_desc, description, use_code, code, hdr, ai, vi, href):
    app = _render_app(asgi)
    status = [400, 404, 418, 503, 599][si]
    headers = [None, {'X-E': '1'}, {'Vary': 'Accept-Language'}, [('X-E', '2')]][hdr]
    _BOX.update(status=status, title=title, description=description if use_desc else None, code=code if use_code else None,
                headers=headers, vary=VARY_PRE[vi], href='http://x/y' if href else None)
    hs = []
    if ACCEPTS[ai] is not None:
        hs.append(('Accept', ACCEPTS[ai]))
    if asgi:
        res = asgi_call(app, make_scope(path='/e', headers=hs))
    else:
        res = wsgi_call(app, make_environ(path='/e', headers=hs))
    if res.status_code != status:
        return fail(lambda: 'HTTPError(%r) rendered with status %r' % (status, res.status))
    if hdr in (1, 3) and res.header('X-E') != ('1' if hdr == 1 else '2'):
        return fail(lambda: 'error headers lost: %r' % (res.headers,))
    if 'accept' not in _vary_tokens(res):
        return fail(lambda: 'Vary does not list Accept: %r (Vary before the error: %r, error headers %r)' % (
            res.header_all('Vary'), VARY_PRE[vi], headers))
    # Vary: Accept is ADDED: the members carried by the error itself -- or, when the error brings no Vary of its own (which
    # would replace it), the ones set on the response before the error -- must still be there
    keep = headers.get('Vary') if isinstance(headers, dict) else None
    if keep is None:
        keep = VARY_PRE[vi]
    if keep:
        have = _vary_tokens(res)
        for tok in keep.split(','):
            tok = tok.strip().lower()
            if tok and tok not in have:
                return fail(lambda: 'Vary member %r lost while the error was rendered: %r (Vary before the error: %r, error headers %r)' % (
                    tok, res.header_all('Vary'), VARY_PRE[vi], headers))
    acc = ACCEPTS[ai]
    wants_json = acc in (None, '*/*', 'application/json', 'a/b+json', 'application/json;q=0.5, application/xml',
                         'application/xml;q=0.5, application/json;q=0.5')
    if acc == 'application/json;q=0.5, application/xml':
        wants_json = False   # XML preferred
    ct = res.header('Content-Type') or ''
    if wants_json:
        if not ct.startswith('application/json'):
            return fail(lambda: 'Accept %r: content type %r' % (acc, ct))
        doc = json.loads(res.body.decode('utf-8'))
        exp = {'title': title}
        if use_desc:
            exp['description'] = description
        if use_code:
            exp['code'] = code
        if href:
            exp['link'] = {'text': 'Documentation related to this error', 'href': 'http://x/y', 'rel': 'help'}
        if doc != exp:
            return fail(lambda: 'JSON error body %r, expected %r' % (doc, exp))
    elif acc in ('text/plain', 'application/json;q=0', 'nonsense'):
        if acc != 'nonsense' and res.body not in (b'',):
            return fail(lambda: 'Accept %r: unexpected body %r' % (acc, res.body))
    else:
        if 'xml' not in ct:
            return fail(lambda: 'Accept %r: content type %r' % (acc, ct))
        if not res.body.startswith(b'<?xml'):
            return fail(lambda: 'XML error body %r' % (res.body[:40],))
    return 1


def render_menu_case(asgi, si, use_desc, use_code, hdr, ai, vi, href, ti):
    """Menu-only rendering table (concrete strings incl. escape-worthy and non-ASCII ones), run outside tracing."""
    si, hdr, ai, vi, ti = pick(si, 0, 4), pick(hdr, 0, 3), pick(ai, 0, len(ACCEPTS) - 1), pick(vi, 0, len(VARY_PRE) - 1), pick(ti, 0, 2)
    use_desc, use_code, href = pickb(use_desc), pickb(use_code), pickb(href)
    title = ['T', 'q"\\<&>\u00e9', '\U0001f600 \n'][ti]
    with notrace():
        return render_case(asgi, si, title, use_desc, title + 'd', use_code, 77, hdr, ai, vi, href)


class _RenderFault:
    def on_get(self, req, resp):
        resp.media = {'a': 1}
        resp.content_type = 'application/x-nope'


class _RenderFaultAsync:
    async def on_get(self, req, resp):
        resp.media = {'a': 1}
        resp.content_type = 'application/x-nope'


def _render_fault_run(asgi):
    app = (falcon.asgi.App if asgi else falcon.App)()
    app.add_route('/rf', (_RenderFaultAsync if asgi else _RenderFault)())
    if asgi:
        return asgi_call(app, make_scope(path='/rf'))
    return wsgi_call(app, make_environ(path='/rf'))


def render_fault_case(asgi):
    """An HTTPError raised WHILE the body is rendered (media with a content type no handler supports -> 415) must be rendered
    like any other HTTPError: its status, headers and serialized body."""
    asgi = pickb(asgi)
    with notrace():
        res = _render_fault_run(asgi)
        if res.status_code != 415:
            return fail(lambda: 'render-time 415 answered with %r' % (res.status,))
        try:
            doc = json.loads(res.body.decode())
        except ValueError:
            doc = None
        if not doc or 'title' not in doc:
            if 'render-time-error-body-dropped' in LISTED:
                return 2
            return fail(lambda: 'HTTPError raised during body rendering: status 415 but body %r (the serialized error is dropped)' % (res.body,))
    return 1


def _known_render_fault():
    out = []
    for asgi in (0, 1):
        res = _render_fault_run(asgi)
        out.append(res.status_code == 415 and res.body == b'')
    return all(out), ('resp.media with a content_type no media handler supports: the 415 raised while the body is rendered reaches its handler '
                      '(status and headers are right) but the serialized error body is dropped -- empty body, content-length 0 -- on WSGI and ASGI')


KNOWN = {'render-time-error-body-dropped': _known_render_fault}


def unexpected_case(asgi, ci, site):
    """Any other Exception-derived error -> 500, never escapes."""
    ci, site = pick(ci, 0, 4), pick(site, 0, 4)
    with notrace():
        state = {'called': [], 'raise': (ci, site)}
        app = _build(asgi, state)
        try:
            res = _request(app, asgi)
        except Exception as e:  # noqa
            return fail(lambda: '%s raised at %s escaped the app: %r' % (CLASSES[ci].__name__, SITES[site], e))
        if res.status_code != 500:
            return fail(lambda: 'unexpected %s -> %r' % (CLASSES[ci].__name__, res.status))
    return 1


# ---------------------------------------------------------------- partitions
def _part(name, args, pre, call, timeout, bounds):
    src = '''
def h(%s) -> int:
    """
%s    post: _ != 0
    """
    return %s
''' % (args, ''.join('    pre: %s\n' % p for p in pre), call)
    return {'name': name, 'fn': 'h', 'src': src, 'timeout': timeout, 'bounds': bounds}


def partitions(tier, seed):
    P = []
    q = tier == 'quick'
    NC = len(CLASSES)
    # histories: R = register(class, behaviour, iterable), Q = request(raised class, site)
    shapes = ['RQ', 'RRQ', 'QRQ', 'RQRQ'] if q else ['RQ', 'RRQ', 'QRQ', 'RQRQ', 'RRRQ', 'QRRQ', 'RQQ']
    for asgi in (0, 1):
        tag = 'asgi' if asgi else 'wsgi'
        for shape in shapes:
            # partition on the raised class of the LAST request to keep each table small
            for last in range(NC):
                if q and (last + asgi + len(shape)) % 2:
                    continue
                args, pre, steps = [], [], []
                nm = len(reg_menu(last))
                nq = shape.count('Q')
                qi = 0
                nr = 0
                for k, ch in enumerate(shape):
                    if ch == 'R':
                        nr += 1
                        args += ['c%d: int' % k, 'b%d: int' % k, 'it%d: bool' % k]
                        # quick: handler behaviours {set body, raise HTTPError}; thorough: all four
                        pre += ['0 <= c%d < %d and 0 <= b%d <= %d' % (k, nm, k, 1 if q else 3)]
                        steps.append('(0, c%d, b%d, it%d)' % (k, k, k))
                    else:
                        qi += 1
                        args += ['s%d: int' % k]
                        # an earlier request raises the same class (what a stale per-type cache would need); only the last
                        # request's site is fully symbolic in the quick tier
                        pre += ['0 <= s%d <= 4' % k if (qi == nq or not q) else '3 <= s%d <= 3' % k]
                        steps.append('(1, %d, s%d)' % (last, k))
                P.append(_part('select_%s_%s_raise%d' % (tag, shape, last), ', '.join(args), pre,
                               'selection_case(%d, [%s], %d)' % (asgi, ', '.join(steps), last), 200 if q else 900,
                               'history %s on one fresh %s app (R = add_error_handler(class from %r, behaviour[, as iterable]), Q = a request '
                               'during which %s is raised at a symbolic site out of %r); the handler must be the one registered for the nearest '
                               'class in the MRO, latest registration winning; stale bodies discarded' % (
                                   shape, tag.upper(), [CLASSES[i].__name__ for i in reg_menu(last)], CLASSES[last].__name__, SITES)))
        tcls = [('plain', "32 <= ord(title) <= 126 and title not in (chr(34), chr(92))"), ('quote', 'title in (chr(34), chr(92))'),
                ('control', 'ord(title) < 32'), ('nonascii', 'ord(title) > 126')]
        for ci, (cname, cpre) in enumerate(tcls):
            hdr = (ci + asgi) % 4
            if q:
                if (ci + asgi) % 2:
                    continue
                P.append(_part('render_sym_%s_%s' % (tag, cname), 'title: str',
                               ['len(title) == 1', cpre, 'not (0xD800 <= ord(title) <= 0xDFFF)'],
                               "render_case(%d, 2, title, False, '', False, 0, %d, 0, %d, False)" % (asgi, hdr, hdr), 150,
                               'default JSON rendering of HTTPError on %s: title one free character of class "%s", error headers shape #%d '
                               '(CrossHair json model: ~4 s per path)' % (tag.upper(), cname, hdr)))
                continue
            P.append(_part('render_sym_%s_%s' % (tag, cname),
                           'title: str, use_desc: bool, use_code: bool, code: int, href: bool',
                           ['len(title) == 1', cpre, 'not (0xD800 <= ord(title) <= 0xDFFF)', '0 <= code <= 2'],
                           "render_case(%d, 2, title, use_desc, title + 'd', use_code, code, %d, 0, %d, href)" % (asgi, hdr, hdr),
                           250 if q else 900,
                           'default JSON rendering of HTTPError on %s: title one free character of class "%s" (description = title + "d"), code 0..2, '
                           'link optional, error headers shape #%d: status, headers, Vary: Accept, faithful JSON body' % (tag.upper(), cname, hdr)))
        if q:
            P.append(_part('render_menu_%s' % tag, 'hdr: int, ai: int, vi: int, ti: int',
                           ['0 <= hdr <= 3 and 0 <= ai < %d and 0 <= vi < %d and 0 <= ti <= 2' % (len(ACCEPTS), len(VARY_PRE))],
                           'render_menu_case(%d, 2, True, True, hdr, ai, vi, True, ti)' % asgi, 250,
                           'default rendering table on %s (run outside tracing, one row per path): 3 titles (plain, escape-worthy, astral) x 4 error-header '
                           'shapes x %d Accept headers x %d pre-existing Vary values' % (tag.upper(), len(ACCEPTS), len(VARY_PRE))))
        else:
            for si in range(5):
                P.append(_part('render_menu_%s_status%d' % (tag, si), 'use_desc: bool, use_code: bool, hdr: int, ai: int, vi: int, href: bool, ti: int',
                               ['0 <= hdr <= 3 and 0 <= ai < %d and 0 <= vi < %d and 0 <= ti <= 2' % (len(ACCEPTS), len(VARY_PRE))],
                               'render_menu_case(%d, %d, use_desc, use_code, hdr, ai, vi, href, ti)' % (asgi, si), 900,
                               'default rendering table on %s, status #%d (outside tracing, one row per path)' % (tag.upper(), si)))
        if 'render-time-error-body-dropped' not in LISTED:   # while listed, the concrete KNOWN witness stands in for this partition
            P.append(_part('render_fault_%s' % tag, 'a: bool', ['a == %s' % bool(asgi)], 'render_fault_case(a)', 60,
                           'raise site = body rendering (media + unsupported content type -> 415) on %s' % tag.upper()))
        P.append(_part('unexpected_%s' % tag, 'ci: int, site: int', ['0 <= ci <= 4', '0 <= site <= 4'], 'unexpected_case(%d, ci, site)' % asgi, 150,
                       'non-HTTP exceptions from the lattice raised at every site on %s: 500, nothing escapes' % tag.upper()))
    return P
