"""C13 -- multipart forms parse to exactly the parts that were encoded, however consumed.

Real code: falcon.media.multipart.MultipartForm.__iter__ / BodyPart.* over the pure-Python BufferedReader (chunk size
forced small so that delimiters straddle buffer edges in bodies of ~60-120 bytes), falcon.asgi.multipart through the
trampoline, mediatypes.parse_header for the part headers.
Oracle: the reference encoder's own part list; limits exact at their thresholds; corruption -> same parts or
MultipartParseError, never another exception; WSGI and ASGI parsers agree.
"""
import engine.loader as _l
_l.install()

import falcon  # noqa: E402
import falcon.asgi.multipart as amp  # noqa: E402
import falcon.asgi.reader as areader  # noqa: E402
import falcon.util.reader as R  # noqa: E402
from falcon.media.multipart import MultipartForm, MultipartParseError, MultipartParseOptions  # noqa: E402

import engine.rt as _rt  # noqa: E402
from engine.rt import FakeIO, fail, run_coro  # noqa: E402

import io as _io  # noqa: E402
if not _rt.CONCRETE:
    R.io = FakeIO(_io)
    areader.io = FakeIO(_io)

PROPERTY = 'C13'
UNITS = ['falcon.media.multipart.MultipartForm.__iter__', 'falcon.media.multipart.BodyPart.get_data/get_text/name/filename/content_type/stream',
         'falcon.asgi.multipart.MultipartForm/BodyPart', 'falcon.util.reader.BufferedReader (delimit/read_until/pipe_until)',
         'falcon.asgi.reader.BufferedReader', 'falcon.util.mediatypes.parse_header']
STUBS = [
    'reader chunk_size forced to 8 on the reader instance (bound scaling: delimiters straddle buffer edges in small bodies)',
    'io.BytesIO inside the readers replaced by the pure-Python model (as in C14)',
    'transport = harness Src with one symbolic cut position (a short read) / ASGI source cut into two chunks at a symbolic position',
    'part contents have concrete lengths per shape and free byte values; contents containing CRLF--boundary are skipped (the '
    'encoder\'s documented precondition); names / filenames / content types come from menus',
]
OUTSIDE = ['more than 2 parts', 'contents longer than 3 bytes', 'nested multipart', 'chunk alignment effects beyond the forced small chunk size']
BUDGET = {'quick': 300, 'thorough': 900}

NAMES = [b'a', b'5\\" floppy', b'a;b', b'n m', b'\xc3\xa9']                   # the last: raw UTF-8, as browsers send it
NAMES_DEC = ['a', '5" floppy', 'a;b', 'n m', '\xe9']
FILENAMES = [None, b'f.txt', b'disk.img', b"UTF-8''%C3%A9.txt", b'\xc3\xa9.txt']
FILENAMES_DEC = [None, 'f.txt', 'disk.img', '\xe9.txt', '\xe9.txt']
CTYPES = [None, b'text/plain', b'application/octet-stream', b'text/plain; charset=latin-1']


class Src:
    def __init__(self, data, cut):
        self.data = data
        self.pos = 0
        self.cut = cut

    def read(self, size=-1):
        rest = len(self.data) - self.pos
        if size is None or size < 0 or size > rest:
            size = rest
        if self.pos < self.cut < self.pos + size:
            size = self.cut - self.pos   # one symbolic short read
        r = self.data[self.pos:self.pos + size]
        self.pos += size
        return r


def encode(parts, boundary, preamble=b'', epilogue=b'\r\n'):
    """parts: list of (name idx, filename idx, ctype idx, content bytes)"""
    out = preamble
    for ni, fi, ci, content in parts:
        out += b'--' + boundary + b'\r\n'
        out += b'Content-Disposition: form-data; name="' + NAMES[ni] + b'"'
        if FILENAMES[fi] is not None:
            if fi == 3:
                out += b'; filename*=' + FILENAMES[fi]
            else:
                out += b'; filename="' + FILENAMES[fi] + b'"'
        out += b'\r\n'
        if CTYPES[ci] is not None:
            out += b'Content-Type: ' + CTYPES[ci] + b'\r\n'
        out += b'\r\n' + content + b'\r\n'
    out += b'--' + boundary + b'--' + epilogue
    return out


def _consume(part, how, k, asgi):
    """how: 0 skip, 1 stream.read(k), 2 get_data, 3 get_text, 4 stream.read() in full"""
    if how == 0:
        return ('skip',)
    if asgi:
        if how == 1:
            return ('read', run_coro(part.stream.read(k)))
        if how == 2:
            return ('data', run_coro(part.get_data()))
        if how == 3:
            return ('text', run_coro(part.get_text()))
        return ('all', run_coro(part.stream.readall()))
    if how == 1:
        return ('read', part.stream.read(k))
    if how == 2:
        return ('data', part.get_data())
    if how == 3:
        return ('text', part.get_text())
    return ('all', part.stream.read())


def _ident(part, fn_first):
    """(name, filename, content_type), read in either order: the two accessors share one parsed Content-Disposition"""
    if fn_first:
        f = part.filename
        return (part.name, f, part.content_type)
    return (part.name, part.filename, part.content_type)


def parse(body, boundary, cut, opts, hows, ks, asgi, chunk=None):
    if chunk is None:
        chunk = 8 if len(boundary) <= 2 else 16   # the delimiter CRLF--boundary must fit into one chunk
    """-> list of (name, filename, content_type, consumed) or ('error', description)"""
    out = []
    if asgi:
        async def source():
            c = cut if 0 < cut < len(body) else len(body)
            yield body[:c]
            if c < len(body):
                yield body[c:]
        form = amp.MultipartForm(areader.BufferedReader(source(), chunk), boundary, len(body), opts)

        async def go():
            i = 0
            async for part in form:
                how = hows[i] if i < len(hows) else 0
                out.append(_ident(part, (len(boundary) + i) % 2 == 0) + (_consume(part, how, ks[i] if i < len(ks) else 0, True),))
                i += 1
        try:
            run_coro(go())
        except MultipartParseError as e:
            return ('error', e.description, out)
        return out
    form = MultipartForm(Src(body, cut), boundary, len(body), opts)
    form._stream._chunk_size = chunk
    form._stream._max_join_size = chunk * R._MAX_JOIN_CHUNKS
    i = 0
    try:
        for part in form:
            how = hows[i] if i < len(hows) else 0
            out.append(_ident(part, (len(boundary) + i) % 2 == 0) + (_consume(part, how, ks[i] if i < len(ks) else 0, False),))
            i += 1
    except MultipartParseError as e:
        return ('error', e.description, out)
    return out


def _expected_part(spec, how, k, opts):
    ni, fi, ci, content = spec
    ct = CTYPES[ci].decode() if CTYPES[ci] is not None else 'text/plain'
    if how == 0:
        c = ('skip',)
    elif how == 1:
        kk = k
        if kk is None or kk < 0 or kk > len(content):
            kk = len(content)
        c = ('read', content[:kk])
    elif how == 2:
        c = ('data', content)
    elif how == 3:
        if ct.startswith('text/plain'):
            charset = 'latin-1' if 'latin-1' in ct else 'utf-8'
            try:
                c = ('text', content.decode(charset))
            except ValueError:
                c = 'texterror'
        else:
            c = ('text', None)
    else:
        c = ('all', content)
    return (NAMES_DEC[ni], FILENAMES_DEC[fi], ct, c)


def form_case(asgi, specs, boundary, preamble, epilogue, cut, hows, ks, max_count, max_buf, max_hdr):
    """specs: list of (ni, fi, ci, content)."""
    for ni, fi, ci, content in specs:
        if (b'\r\n--' + boundary) in (b'\r\n' + content + b'\r\n'):
            return 2   # encoder precondition
    body = encode(specs, boundary, preamble, epilogue)
    opts = MultipartParseOptions()
    opts.max_body_part_count = max_count
    opts.max_body_part_buffer_size = max_buf
    opts.max_body_part_headers_size = max_hdr
    got = parse(body, boundary, cut, opts, hows, ks, asgi)
    # expected outcome incl. the limits, exact at their thresholds
    exp = []
    err = None
    for i, spec in enumerate(specs):
        hdr_block = body[body.index(b'Content-Disposition', 0 if i == 0 else body.index(b'--' + boundary, 1)):]
        if max_count > 0 and i + 1 > max_count:
            err = 'count'
            break
        how = hows[i] if i < len(hows) else 0
        e = _expected_part(spec, how, ks[i] if i < len(ks) else 0, opts)
        if how in (2, 3) and (how == 2 or e[2].startswith('text/plain')) and len(spec[3]) > max_buf:
            err = 'toolarge'
            break
        if e[3] == 'texterror':
            err = 'text'
            break
        exp.append(e)
    ctx = lambda: '%s body=%r cut=%r hows=%r ks=%r limits(count=%r, buffer=%r, headers=%r) -> %r' % (  # noqa: E731
        'ASGI' if asgi else 'WSGI', body, cut, hows, ks, max_count, max_buf, max_hdr, got)
    if isinstance(got, tuple) and got[0] == 'error':
        if err is None:
            # header-size limit: legal only if some header block really exceeds it
            longest = 0
            for spec in specs:
                hb = encode([spec], boundary)
                hlen = hb.index(b'\r\n\r\n') - len(b'--' + boundary + b'\r\n')
                longest = max(longest, hlen)
            if longest > max_hdr:
                return 1
            return fail(lambda: 'MultipartParseError(%r) for a well-formed form within its limits: %s' % (got[1], ctx()))
        if got[2] != exp:
            return fail(lambda: 'parts before the limit error differ, expected %r: %s' % (exp, ctx()))
        return 1
    if err is not None:
        return fail(lambda: 'limit (%s) not enforced: %s' % (err, ctx()))
    if got != exp:
        return fail(lambda: 'parsed parts differ from the encoded ones, expected %r: %s' % (exp, ctx()))
    return 1


def corrupt_case(specs, boundary, pos, byte, hows):
    """single-byte corruption: identical parts (benign edit), a parse error, or different well-formed parts -- never another
    exception; WSGI and ASGI agree on error-vs-parts."""
    body = encode(specs, boundary)
    if not (0 <= pos < len(body)):
        return 2
    body = body[:pos] + bytes([byte]) + body[pos + 1:]
    opts = MultipartParseOptions()
    w = parse(body, boundary, 0, opts, hows, (0, 0), False)
    a = parse(body, boundary, 0, opts, hows, (0, 0), True)
    we = isinstance(w, tuple) and w[0] == 'error'
    ae = isinstance(a, tuple) and a[0] == 'error'
    if we != ae or (not we and w != a):
        return fail(lambda: 'corrupted body %r: WSGI parser -> %r, ASGI parser -> %r' % (body, w, a))
    return 1


# ---------------------------------------------------------------- partitions
def _part(name, args, pre, call, timeout, bounds):
    src = '''
def h(%s) -> int:
    """
%s    post: _ != 0
    """
    return %s
''' % (args, ''.join('    pre: %s\n' % p for p in pre), call)
    return {'name': name, 'fn': 'h', 'src': src, 'timeout': timeout, 'per_path': 60, 'bounds': bounds}


def partitions(tier, seed):
    P = []
    q = tier == 'quick'

    def cuts(body):
        # transport cut positions: around every delimiter start/end and header end
        pts = set([0])
        for needle in (b'--', b'\r\n\r\n', b'\r\n--'):
            i = body.find(needle)
            while i >= 0:
                for d in (-1, 0, 1, len(needle)):
                    if 0 < i + d < len(body):
                        pts.add(i + d)
                i = body.find(needle, i + 1)
        # (a free cut position 0..len(body) made every path of the thorough tier run into the per-path timeout: the cut
        #  menu is kept in both tiers, thinned for quick)
        pts = sorted(pts)[::2][:12] if q else sorted(pts)
        return 'cut in %r' % (tuple(pts),)
    # one part: content bytes free, consumption + limits + cut symbolic
    one = [(0, 0, 0, 2, b'b', b'', b'\r\n'), (1, 1, 1, 2, b'b', b'', b'\r\n'), (2, 2, 2, 1, b'bb', b'pre\r\n', b''), (3, 3, 3, 2, b'b', b'', b'\r\nepi'),
           (0, 1, 1, 3, b'b' * 10, b'', b'\r\n'), (4, 4, 1, 1, b'bb', b'', b'\r\n'), (4, 4, 0, 1, b'b', b'', b'\r\n')]
    for si, (ni, fi, ci, ln, bd, pre, epi) in enumerate(one):
        for asgi in ((si % 2,) if q else (0, 1)):
            sample = encode([(ni, fi, ci, b'x' * ln)], bd, pre, epi)
            blen = len(sample)
            for how in ((1, 2) if q else (0, 1, 2, 3, 4)):
                if q and how == 2 and si % 2:
                    how = 3
                P.append(_part('one_%s_s%d_how%d' % ('asgi' if asgi else 'wsgi', si, how), 'c0: bytes, k: int, cut: int, max_buf: int, max_count: int',
                               ['len(c0) == %d' % ln, 'k >= -1', cuts(sample), '0 <= max_buf <= %d' % (ln + 1), '0 <= max_count <= 2'],
                               'form_case(%d, [(%d, %d, %d, c0)], %r, %r, %r, cut, [%d], [k], max_count, max_buf, 8192)' % (asgi, ni, fi, ci, bd, pre, epi, how),
                               150 if q else 500,
                               '1-part form (name %r, filename %r, content type %r, boundary %r, preamble %r, epilogue %r): %d free content bytes, '
                               'consumption #%d with size any int >= -1, transport cut at a delimiter / header-end edge (+-1) of the %d-byte body, max_body_part_buffer_size '
                               '0..%d, max_body_part_count 0..2 symbolic' % (NAMES_DEC[ni], FILENAMES_DEC[fi], CTYPES[ci], bd, pre, epi, ln, how, blen, ln + 1)))
    # alignment sweep: a preamble of 0..7 bytes shifts every delimiter across the (forced) 8-byte buffer edge; only the content
    # bytes and the read size are symbolic here, so each alignment is cheap
    for n in ((0, 3) if q else range(8)):
        for clen in range(0, 10 if q else 18):
            for asgi in (((n + clen) % 2,) if q else (0, 1)):
                pre_b = (b'p' * n + b'\r\n') if n else b''
                content = (b'x-\r' * 6)[:clen]
                P.append(_part('align_%s_pre%d_len%d' % ('asgi' if asgi else 'wsgi', n, clen), 'k: int, k2: int, how2: int', ['k >= -1 and k2 >= -1', '1 <= how2 <= 4'],
                               'form_case(%d, [(0, 0, 0, %r), (0, 1, 1, b"\\r")], b"b", %r, b"\\r\\n", 0, [1, how2], [k, k2], 0, 64, 8192)' % (asgi, content, pre_b),
                               100 if q else 600,
                               '2-part form: first content %r (%d bytes) behind a %d-byte preamble -- content length and preamble sweep the alignment of '
                               'every delimiter relative to the 8-byte reader buffer; first part read with stream.read(k), the second consumed by a '
                               'symbolic method with size k2; k, k2 any int >= -1' % (content, clen, len(pre_b))))
    # two parts: how much of the first part is read must not matter
    two = [((0, 0, 0, 2), (1, 1, 1, 1), b'b'), ((2, 2, 2, 1), (0, 0, 0, 2), b'bb')]
    for si, (p0, p1, bd) in enumerate([] if q else two):   # ~50 s per path: thorough tier only (the alignment sweep covers 2-part forms in quick)
        for asgi in ((si % 2,) if q else (0, 1)):
            sample = encode([p0[:3] + (b'x' * p0[3],), p1[:3] + (b'y' * p1[3],)], bd)
            blen = len(sample)
            for h0 in ((1,) if q else (0, 1, 2, 4)):
                P.append(_part('two_%s_s%d_how%d' % ('asgi' if asgi else 'wsgi', si, h0), 'c0: bytes, c1: bytes, k: int, cut: int, max_count: int',
                               ['len(c0) == %d and len(c1) == %d' % (p0[3], p1[3]), 'k >= -1', cuts(sample), '0 <= max_count <= 3'],
                               'form_case(%d, [(%d, %d, %d, c0), (%d, %d, %d, c1)], %r, b"", b"\\r\\n", cut, [%d, 2], [k, 0], max_count, 64, 8192)' % (
                                   (asgi,) + p0[:3] + p1[:3] + (bd, h0)), 200 if q else 1200,
                               '2-part form, boundary %r: free content bytes (%d + %d), the first part consumed by #%d with a symbolic size, the '
                               'second read in full; symbolic transport cut and max_body_part_count' % (bd, p0[3], p1[3], h0)))
    # header-size limit threshold
    hb = encode([(1, 1, 1, b'xx')], b'b')
    hlen = hb.index(b'\r\n\r\n') - len(b'--b\r\n')
    for asgi in (0, 1):
        P.append(_part('hdrlimit_%s' % ('asgi' if asgi else 'wsgi'), 'c0: bytes, max_hdr: int', ['len(c0) == 2', '%d <= max_hdr <= %d' % (hlen - 3, hlen + 3)],
                       'form_case(%d, [(1, 1, 1, c0)], b"b", b"", b"\\r\\n", 0, [2], [0], 0, 64, max_hdr)' % asgi, 200,
                       'max_body_part_headers_size in a window of +-3 around the real header block size (%d bytes)' % hlen))
    # corruption
    base = encode([(0, 1, 1, b'xy')], b'b')
    positions = list(range(0, len(base), 7 if q else 2))
    for pos in positions:
        P.append(_part('corrupt_pos%03d' % pos, 'byte: int', ['0 <= byte <= 255'], 'corrupt_case([(0, 1, 1, b"xy")], b"b", %d, byte, [2])' % pos,
                       200 if q else 600, 'byte #%d of a 1-part form replaced by ANY byte: both parsers give the same parts or both a MultipartParseError, '
                       'never another exception' % pos))
    return P
