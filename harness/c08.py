"""C08 -- query strings parse to one well-defined mapping; typed getters never misreport.

Real code: falcon.util.uri.parse_query_string (pure Python), falcon.Request /
falcon.asgi.Request params + get_param*, falcon.util.misc.to_query_str.
Oracle: the form-urlencoded reference reading written from the property text
(ref_parse below) on top of C10's byte-level reference decoder.
"""
import engine.loader as _l
_l.install()

import falcon  # noqa: E402
import falcon.asgi  # noqa: E402
import falcon.errors as ferrors  # noqa: E402
import falcon.util.misc as misc  # noqa: E402
import falcon.util.uri as U  # noqa: E402

import engine.rt as _rt  # noqa: E402
from engine.rt import pick, fail  # noqa: E402
from harness.c10 import REAL_TABLE, STUB_TABLE, _encoders, ref_decode  # noqa: E402

PROPERTY = 'C08'
UNITS = ['falcon.util.uri.parse_query_string', 'falcon.util.uri.decode', 'falcon.request.Request.params/get_param/'
         'get_param_as_int/get_param_as_bool/get_param_as_list/has_param', 'falcon.asgi.request.Request (same getters)',
         'falcon.util.misc.to_query_str']
STUBS = [
    'query strings are generated per STRUCTURE PATTERN (position of & = , + % fixed by the shape); characters that end up in '
    'parameter NAMES are restricted to {a, g} (one hex, one non-hex letter) because a parsed name becomes a dict key and '
    'CrossHair must realize it; characters that only reach VALUES are free (any code point that is not one of & = , + %)',
    'falcon.util.uri._HEX_TO_BYTE replaced by the arithmetic hex model (validated exhaustively in C10)',
    'falcon.util.misc.encode_value re-created over the arithmetic per-byte model (validated exhaustively in C10) for the '
    'to_query_str round trip',
    'get_param_as_bool raw values come from a menu (frozenset membership hashes, i.e. realizes, the string)',
    'min_value/max_value/default are bounded to [-3, 3] and parsed ints to sign + <=2 digits: falcon formats the bound into '
    'the error message, which realizes it (finite enumeration on error paths only)',
]
OUTSIDE = ['get_param_as_uuid / as_json conversions and float/date getters beyond their finite tables (C or float parsing realizes input)',
           'query strings longer than 4 characters except the structured long patterns', 'the Cython parse_query_string',
           'parameter names outside the {a, g, %, +} alphabet']
BUDGET = {'quick': 330, 'thorough': 900}

STRUCT = '&=,+%'


def ref_parse(qs, keep_blank, csv):
    """Form-urlencoded reference reading -> ordered list of [name, value]."""
    out = []
    for field in qs.split('&'):
        i = field.find('=')
        if i < 0:
            k, v = field, ''
        else:
            k, v = field[:i], field[i + 1:]
        if not v and (not keep_blank or not k):
            continue
        name = ref_decode(k, True)
        if csv and ',' in v:
            vals = [ref_decode(e, True) for e in v.split(',') if (keep_blank or e)]
            is_list = True     # may be empty ('n=,' without keep_blank): the mapping keeps the empty list (pinned by falcon's tests)
        else:
            vals = [ref_decode(v, True)]
            is_list = False
        found = None
        for ent in out:
            if ent[0] == name:
                found = ent
                break
        if found is None:
            out.append([name, vals if is_list else vals[0]])
        elif isinstance(found[1], list):
            found[1].extend(vals)
        else:
            found[1] = [found[1]] + vals
    return out


def build(pattern, n, v):
    """pattern over & = , + % N V  (N: next name char from n, V: next value char from v)."""
    qs = ''
    ni = vi = 0
    for c in pattern:
        if c == 'N':
            qs = qs + n[ni]
            ni += 1
        elif c == 'V':
            qs = qs + v[vi]
            vi += 1
        else:
            qs = qs + c
    return qs


def classify(pat):
    """Replace each 'x' of a structure pattern by N (name position) or V (value position)."""
    out = []
    in_value = False
    for c in pat:
        if c == '&':
            in_value = False
            out.append(c)
        elif c == '=':
            out.append(c)
            in_value = True  # only the first '=' of a field starts the value; later ones are value characters
        elif c == 'x':
            out.append('V' if in_value else 'N')
        else:
            out.append(c)
    return ''.join(out)


def qs_case(pattern, n, v, kb, csv):
    for ch in v:
        if ch in STRUCT or 0xD800 <= ord(ch) <= 0xDFFF:
            return 2
    for ch in n:
        if ch != 'a' and ch != 'g':
            return 2
    qs = build(pattern, n, v)
    U._HEX_TO_BYTE = REAL_TABLE if _rt.CONCRETE else STUB_TABLE
    try:
        got = U.parse_query_string(qs, kb, csv)
    finally:
        U._HEX_TO_BYTE = REAL_TABLE
    exp = ref_parse(qs, kb, csv)
    g = [[k, val] for k, val in got.items()]
    if g != exp:
        return fail(lambda: 'parse_query_string(%r, keep_blank=%r, csv=%r) = %r, reference reading %r' % (qs, kb, csv, g, exp))
    return 1


# ---------------------------------------------------------------- requests + typed getters
def _wsgi_req(qs, kb, csv):
    env = {'REQUEST_METHOD': 'GET', 'PATH_INFO': '/', 'QUERY_STRING': qs, 'SERVER_NAME': 'h', 'SERVER_PORT': '80',
           'SERVER_PROTOCOL': 'HTTP/1.1', 'wsgi.url_scheme': 'http', 'wsgi.input': None, 'wsgi.errors': None}
    opts = falcon.RequestOptions()
    opts.keep_blank_qs_values = kb
    opts.auto_parse_qs_csv = csv
    return falcon.Request(env, options=opts)


def _asgi_req(qs, kb, csv):
    scope = {'type': 'http', 'http_version': '1.1', 'method': 'GET', 'path': '/', 'query_string': qs.encode('utf-8'),  # what a client / falcon.testing sends for a str query
            
             'headers': [], 'server': ('h', 80), 'client': ('c', 1), 'scheme': 'http', 'root_path': ''}
    opts = falcon.RequestOptions()
    opts.keep_blank_qs_values = kb
    opts.auto_parse_qs_csv = csv
    return falcon.asgi.Request(scope, None, options=opts)


def _mkreq(asgi, qs, kb, csv):
    U._HEX_TO_BYTE = REAL_TABLE if _rt.CONCRETE else STUB_TABLE
    try:
        return _asgi_req(qs, kb, csv) if asgi else _wsgi_req(qs, kb, csv)
    finally:
        U._HEX_TO_BYTE = REAL_TABLE


def req_params_case(asgi, pattern, n, v, kb, csv):
    """req.params == reference reading, through the real Request classes."""
    for ch in v:
        if ch in STRUCT or 0xD800 <= ord(ch) <= 0xDFFF or (not asgi and ord(ch) > 255):
            return 2  # a WSGI QUERY_STRING is a latin-1 tunnelled native string
    for ch in n:
        if ch != 'a' and ch != 'g':
            return 2
    qs = build(pattern, n, v)
    req = _mkreq(asgi, qs, kb, csv)
    exp = ref_parse(qs, kb, csv)
    g = [[k, val] for k, val in req.params.items()]
    if g != exp:
        return fail(lambda: '%s req.params for %r (keep_blank=%r, csv=%r) = %r, reference %r' % (
            'ASGI' if asgi else 'WSGI', qs, kb, csv, g, exp))
    # get_param returns the LAST occurrence; has_param agrees
    for name, val in exp:
        if isinstance(val, list) and not val:
            # every element was blank and dropped: the scalar getters have no value -- like a missing parameter, never an IndexError
            try:
                if req.get_param(name, default='D') != 'D' or req.get_param_as_int(name, default=7) != 7 \
                        or req.get_param_as_bool(name, default=None) is not None or req.get_param_as_list(name) != []:
                    return fail(lambda: 'getters on %r (all CSV elements blank) for %r' % (name, qs))
                try:
                    req.get_param(name, required=True)
                    return fail(lambda: 'get_param(%r, required=True) returned for %r' % (name, qs))
                except falcon.HTTPMissingParam:
                    pass
            except falcon.HTTPError:
                raise
            continue
        last = val[-1] if isinstance(val, list) else val
        if req.get_param(name) != last:
            return fail(lambda: 'get_param(%r) = %r, last occurrence is %r' % (name, req.get_param(name), last))
        if not req.has_param(name):
            return fail(lambda: 'has_param(%r) False' % (name,))
    if req.get_param('zz', default='D') != 'D' or req.has_param('zz'):
        return fail('missing parameter not reported as missing')
    return 1


def _digits_value(sign, ds):
    """-> (text, int value) or None if ds is not all digits."""
    val = 0
    for ch in ds:
        if not ('0' <= ch <= '9'):
            return None
        val = val * 10 + (ord(ch) - 48)
    if not ds:
        return None
    if sign == 1:
        return '-' + ds, -val
    if sign == 2:
        return '%2B' + ds, val  # an encoded plus sign
    return ds, val


def int_case(asgi, sign, ds, first, use_min, mn, use_max, mx, required, use_default, default, use_store):
    dv = _digits_value(sign, ds)
    if dv is None:
        return 2
    text, val = dv
    qs = ('x=' + first + '&' if first else '') + 'x=' + text
    req = _mkreq(asgi, qs, False, False)
    store = {} if use_store else None
    kwargs = {'required': required, 'store': store}
    if use_min:
        kwargs['min_value'] = mn
    if use_max:
        kwargs['max_value'] = mx
    if use_default:
        kwargs['default'] = default
    bad = (use_min and val < mn) or (use_max and val > mx)
    try:
        got = req.get_param_as_int('x', **kwargs)
    except ferrors.HTTPInvalidParam as e:
        if not bad:
            return fail(lambda: 'get_param_as_int(%r, %r) raised HTTPInvalidParam for the in-range value %d' % (qs, kwargs, val))
        if e.status_code != 400:
            return fail('HTTPInvalidParam is not a 400')
        if use_store and store:
            return fail('store written although the value was rejected')
        return 1
    if bad:
        return fail(lambda: 'get_param_as_int(%r, %r) returned %r although %d violates min/max' % (qs, kwargs, got, val))
    if got != val:
        return fail(lambda: 'get_param_as_int(%r) = %r, reference int is %r' % (qs, got, val))
    if use_store and store != {'x': val}:
        return fail(lambda: 'store = %r, expected {"x": %r}' % (store, val))
    return 1


def int_missing_case(asgi, junk, required, use_default, default, use_store):
    """non-integers -> 400; missing -> default / HTTPMissingParam."""
    menu = ('x=abc', 'x=1.5', 'x=', 'x=--1', 'x=1&x=a', 'y=1', '', 'x=%31')
    qs = menu[junk]
    req = _mkreq(asgi, qs, True, False)
    store = {} if use_store else None
    kwargs = {'required': required, 'store': store}
    if use_default:
        kwargs['default'] = default
    present = junk in (0, 1, 2, 3, 4, 7)
    try:
        got = req.get_param_as_int('x', **kwargs)
    except ferrors.HTTPMissingParam as e:
        if present or not required or e.status_code != 400:
            return fail(lambda: 'HTTPMissingParam for %r (required=%r)' % (qs, required))
        return 1
    except ferrors.HTTPInvalidParam as e:
        if junk == 7 or not present or e.status_code != 400:
            return fail(lambda: 'HTTPInvalidParam for %r' % (qs,))
        if store:
            return fail('store written on error')
        return 1
    if junk == 7:
        return 1 if got == 1 else fail(lambda: 'x=%%31 read as %r' % (got,))
    if present:
        return fail(lambda: 'get_param_as_int(%r) returned %r for a non-integer' % (qs, got))
    if required:
        return fail('missing required parameter did not raise')
    exp = default if use_default else None
    if got != exp:
        return fail(lambda: 'missing parameter: got %r, default is %r' % (got, exp))
    if store:
        return fail('store written for a missing parameter')
    return 1


BOOL_MENU = ('true', 'True', 't', 'yes', 'y', '1', 'on', 'false', 'False', 'f', 'no', 'n', '0', 'off', '', 'TRUE', 'tru', '2',
             'x', 'On')


def bool_case(asgi, i, two, blank_as_true, required, use_default, default, use_store):
    raw = BOOL_MENU[i]
    qs = ('x=junk&' if two else '') + 'x=' + raw
    req = _mkreq(asgi, qs, True, False)
    store = {} if use_store else None
    kwargs = {'required': required, 'store': store, 'blank_as_true': blank_as_true}
    if use_default:
        kwargs['default'] = default
    if i < 7:
        exp = True
    elif i < 14:
        exp = False
    elif i == 14:
        exp = blank_as_true
    else:
        exp = 'err'
    try:
        got = req.get_param_as_bool('x', **kwargs)
    except ferrors.HTTPInvalidParam as e:
        if exp != 'err' or e.status_code != 400 or store:
            return fail(lambda: 'get_param_as_bool(%r) raised for a valid value' % (qs,))
        return 1
    if exp == 'err' or got is not exp:
        return fail(lambda: 'get_param_as_bool(%r, blank_as_true=%r) = %r, expected %r' % (qs, blank_as_true, got, exp))
    if use_store and store != {'x': exp}:
        return fail('store mismatch')
    return 1


def list_case(asgi, v, csv, kb, use_int, required, use_store):
    """get_param_as_list on x=<v[0]>,<v[1]>&x=<v[2]>  (elements: one free character each, possibly blank)."""
    for ch in v:
        if ch in STRUCT or ord(ch) > 127:
            return 2
    e0, e1, e2 = v[0:1], v[1:2], '7'
    qs = 'x=' + e0 + ',' + e1 + '&x=' + e2
    req = _mkreq(asgi, qs, kb, csv)
    exp = None
    for name, val in ref_parse(qs, kb, csv):
        if name == 'x':
            exp = val if isinstance(val, list) else [val]
    store = {} if use_store else None
    try:
        got = req.get_param_as_list('x', transform=int if use_int else None, required=required, store=store)
    except ferrors.HTTPInvalidParam as e:
        if not use_int or e.status_code != 400:
            return fail(lambda: 'get_param_as_list(%r) raised HTTPInvalidParam' % (qs,))
        return 1  # some element is not an int (transform errors are 400s)
    except ferrors.HTTPMissingParam:
        if exp is None and required:
            return 1
        return fail(lambda: 'HTTPMissingParam for %r' % (qs,))
    if exp is None:
        if required or got is not None:
            return fail(lambda: 'missing list: got %r' % (got,))
        return 1
    if use_int:
        try:
            exp = [int(x) for x in exp]
        except ValueError:
            return fail(lambda: 'transform=int accepted %r' % (exp,))
    if got != exp:
        return fail(lambda: 'get_param_as_list(%r, csv=%r, keep_blank=%r) = %r, reference %r' % (qs, csv, kb, got, exp))
    if use_store and store != {'x': exp}:
        return fail('store mismatch')
    return 1


# ---------------------------------------------------------------- to_query_str round trip
KEYS = ('a', 'b c', '\xe9', 'k&=')


def roundtrip_case(k1, k2, v1, v2, kind, cdl):
    """{KEYS[k1]: v1, KEYS[k2]: <kind of v2>} -> to_query_str -> parse back."""
    for ch in v1 + v2:
        if 0xD800 <= ord(ch) <= 0xDFFF:
            return 2
    if k1 == k2:
        return 2
    if kind == 0:
        second = v2
        exp2 = v2
    elif kind == 1:
        second = [v1, v2]
        exp2 = [v1, v2]
    elif kind == 2:
        second = True
        exp2 = 'true'
    else:
        second = len(v2)
        exp2 = str(len(v2))
    params = {KEYS[k1]: v1, KEYS[k2]: second}
    saved = misc.encode_value
    if not _rt.CONCRETE:
        misc.encode_value = _encoders()[1]
    U._HEX_TO_BYTE = REAL_TABLE if _rt.CONCRETE else STUB_TABLE
    try:
        qs = misc.to_query_str(params, comma_delimited_lists=cdl, prefix=False)
        back = U.parse_query_string(qs, True, cdl)
    finally:
        misc.encode_value = saved
        U._HEX_TO_BYTE = REAL_TABLE
    exp = {KEYS[k1]: v1, KEYS[k2]: exp2}
    if back != exp:
        return fail(lambda: 'to_query_str(%r, comma_delimited_lists=%r) = %r parses back to %r' % (params, cdl, qs, back))
    return 1


# ---------------------------------------------------------------- partitions
def _pat_fn(idx, pat, call='qs_case', extra=''):
    cl = classify(pat)
    nn, nv = cl.count('N'), cl.count('V')
    return '''
def h%d(n: str, v: str, kb: bool, csv: bool) -> int:
    """
    pre: len(n) == %d and len(v) == %d
    post: _ != 0
    """
    return %s(%s%r, n, v, kb, csv)
''' % (idx, nn, nv, call, extra, cl)


def _seqs(n, alphabet):
    if n == 0:
        return ['']
    return [a + r for a in alphabet for r in _seqs(n - 1, alphabet)]


def _group(name, pats, timeout, call='qs_case', extra='', per=8):
    out = []
    for gi in range(0, len(pats), per):
        chunk = pats[gi:gi + per]
        src = ''.join(_pat_fn(i, p, call, extra) for i, p in enumerate(chunk))
        out.append({'name': '%s_%03d_%s' % (name, gi // per, chunk[0].replace('&', 'A').replace('=', 'E').replace(',', 'C')
                                           .replace('+', 'L').replace('%', 'P')),
                    'fn': 'h0', 'fns': ['h%d' % i for i in range(len(chunk))], 'src': src, 'timeout': timeout,
                    'bounds': '%s on the structure patterns %s: x in a name position ranges over {a, g}, x in a value position '
                              'over every code point except & = , + %% and lone surrogates; keep_blank and csv symbolic' % (
                                  call, chunk)})
    return out


LONG_PATTERNS = [
    # names are literal here (a / g), x marks free VALUE characters only
    'a=x&a=x&a=x',        # a name three times: creation / two-element list / append
    'a=x&g=x&a=x',        # interleaved names keep first-seen order
    'a=x,x&a=x',          # csv list then append
    'a=x&a=x,x',          # single then csv extend
    'a=,x,&a=,',          # csv with blanks
    'a=x&a&a=',           # blank values of a repeated name
    'a=%xx,x',            # escape inside a csv element
    'a=x%2Cx,x',          # an encoded comma is not a delimiter
    'a=x&a=x%2Cx,x',      # ... also on a repeated name
    '%61=x&a=x',          # an escaped name equals its literal spelling
    'a+g=x+x&a=+',        # plus in names and values
    'a=x=x&=x&a==',       # later '=' are value characters; empty name
    '&&a=x&&',            # empty fields
    'a=%&a=%x&a=%xx%',    # malformed escapes stay literal
    'a=%41%41%41%41%41%41%xx%x',  # >= 8 tokens in one value (long join path)
]


DATE_QS = ['', 'since=', 'since=2020-02-03', 'since=x', 'since=2020-02-03&since=', 'since=&since=2020-02-03', 'since=2020-02-03T04:05:06Z',
           'since=2020-13-01', 'other=1', 'since=2020-02-03T04:05:06%2B0100', 'since=2020-02-03,2021-01-01']


def date_case(asgi, qi, kb, csv, required, use_default, which):
    """get_param_as_date / get_param_as_datetime against the reference conversion (strptime on the last occurrence)."""
    import datetime as _dt
    qs = DATE_QS[qi]
    req = _mkreq(asgi, qs, kb, csv)
    ref = dict((k, v) for k, v in ref_parse(qs, kb, csv))
    fmt = '%Y-%m-%d' if which == 0 else '%Y-%m-%dT%H:%M:%S%z'
    default = (_dt.date(1999, 1, 1) if which == 0 else _dt.datetime(1999, 1, 1)) if use_default else None
    if 'since' not in ref or ref['since'] == []:
        exp = ('missing',) if required else ('ok', default)
    else:
        last = ref['since'][-1] if isinstance(ref['since'], list) else ref['since']
        try:
            d = _dt.datetime.strptime(last, fmt)
            exp = ('ok', d.date() if which == 0 else d)
        except ValueError:
            exp = ('invalid',)
    try:
        if which == 0:
            got = ('ok', req.get_param_as_date('since', required=required, default=default))
        else:
            got = ('ok', req.get_param_as_datetime('since', required=required, default=default))
    except falcon.HTTPMissingParam:
        got = ('missing',)
    except falcon.HTTPInvalidParam:
        got = ('invalid',)
    if got != exp:
        return fail(lambda: '%s(%r) on %r (keep_blank=%r, csv=%r, required=%r, default=%r) -> %r, reference conversion %r' % (
            ['get_param_as_date', 'get_param_as_datetime'][which], 'since', qs, kb, csv, required, default, got, exp))
    return 1


FLOAT_QS = ['x=1.5', 'x=-2', 'x=0', 'x=0.0', 'x=%2B1', 'x=abc', 'x=7&x=0.5', 'x=-0.5', 'x=1e0']
FLOAT_BOUNDS = (None, -1.0, 0, 0.0, 1.5)


def float_case(asgi, qi, mni, mxi, use_store):
    """get_param_as_float against float() of the last occurrence; min_value/max_value honoured exactly (0 is a bound, not 'unset')."""
    qs = FLOAT_QS[qi]
    req = _mkreq(asgi, qs, False, False)
    ref = dict((k, v) for k, v in ref_parse(qs, False, False))
    last = ref['x'][-1] if isinstance(ref['x'], list) else ref['x']
    mn, mx = FLOAT_BOUNDS[mni], FLOAT_BOUNDS[mxi]
    try:
        val = float(last)
        exp = ('invalid',) if ((mn is not None and val < mn) or (mx is not None and val > mx)) else ('ok', val)
    except ValueError:
        exp = ('invalid',)
    store = {} if use_store else None
    try:
        got = ('ok', req.get_param_as_float('x', min_value=mn, max_value=mx, store=store))
    except falcon.HTTPInvalidParam:
        got = ('invalid',)
    if got != exp:
        return fail(lambda: 'get_param_as_float on %r (min_value=%r, max_value=%r) -> %r, reference conversion %r' % (qs, mn, mx, got, exp))
    if use_store and store != ({'x': exp[1]} if exp[0] == 'ok' else {}):
        return fail(lambda: 'get_param_as_float on %r (min_value=%r, max_value=%r): store = %r after %r' % (qs, mn, mx, store, got))
    return 1


def _getter_part(name, args, pre, call, timeout, bounds):
    src = '''
def h(%s) -> int:
    """
%s    post: _ != 0
    """
    return %s
''' % (args, ''.join('    pre: %s\n' % p for p in pre), call)
    return {'name': name, 'fn': 'h', 'src': src, 'timeout': timeout, 'bounds': bounds}


def partitions(tier, seed):
    P = []
    q = tier == 'quick'
    pats = []
    for n in range(1, (3 if q else 4) + 1):
        pats.extend(_seqs(n, '&=,+%x'))
    # drop patterns that contain no x at all beyond length 2 in quick (pure punctuation): keep them, they are cheap
    P.extend(_group('parse', pats, 60 if q else 200, per=12 if q else 16))
    P.extend(_group('parse_long', LONG_PATTERNS, 150 if q else 600, per=1))
    sel = ['x=x', 'a=x&a=x', 'x=x,x', 'x&x=', '%xx=x+x', 'a=x%2Cx,x', 'x=,', 'a=,&g=x,'] if q else \
        LONG_PATTERNS + ['x=x', 'x', 'x=x,x', 'x=,', 'x=,,', 'a=,&g=x,', 'a=x&a=,']
    for asgi in (0, 1):
        P.extend(_group('params_%s' % ('asgi' if asgi else 'wsgi'), sel, 150 if q else 400, call='req_params_case',
                        extra='%d, ' % asgi, per=2 if q else 1))
    for asgi in (0, 1):
        P.append(_getter_part(
            'date_getters_%s' % ('asgi' if asgi else 'wsgi'), 'qi: int, kb: bool, csv: bool, required: bool, use_default: bool, which: int',
            ['0 <= qi < %d' % len(DATE_QS), '0 <= which <= 1'],
            'date_case(%d, pick(qi, 0, %d), bool(pick(int(kb), 0, 1)), bool(pick(int(csv), 0, 1)), bool(pick(int(required), 0, 1)), '
            'bool(pick(int(use_default), 0, 1)), pick(which, 0, 1))' % (asgi, len(DATE_QS) - 1), 150,
            'get_param_as_date / get_param_as_datetime on %d query strings (absent, blank, valid, invalid, repeated with a blank occurrence, '
            'CSV) x keep_blank x csv x required x default: finite table through the solver (strptime realizes its input)' % len(DATE_QS)))
    for asgi in (0, 1):
        P.append(_getter_part(
            'float_getters_%s' % ('asgi' if asgi else 'wsgi'), 'qi: int, mni: int, mxi: int, use_store: bool',
            ['0 <= qi < %d' % len(FLOAT_QS), '0 <= mni < %d and 0 <= mxi < %d' % (len(FLOAT_BOUNDS), len(FLOAT_BOUNDS))],
            'float_case(%d, pick(qi, 0, %d), pick(mni, 0, %d), pick(mxi, 0, %d), bool(pick(int(use_store), 0, 1)))' % (
                asgi, len(FLOAT_QS) - 1, len(FLOAT_BOUNDS) - 1, len(FLOAT_BOUNDS) - 1), 150,
            'get_param_as_float on %d query strings x min_value/max_value in {unset, -1.0, 0, 0.0, 1.5} x store: finite table through '
            'the solver (float parsing realizes its input); nan/inf spellings outside' % len(FLOAT_QS)))
    for asgi in (0, 1):
        tag = 'asgi' if asgi else 'wsgi'
        P.append(_getter_part(
            'int_range_%s' % tag,
            'sign: int, ds: str, use_min: bool, mn: int, use_max: bool, mx: int, use_store: bool',
            ['0 <= sign <= 2', 'len(ds) == 1' if q else '1 <= len(ds) <= 2', '-2 <= mn <= 2 and -2 <= mx <= 2'],
            "int_case(%d, sign, ds, '', use_min, mn, use_max, mx, False, False, 0, use_store)" % asgi,
            200 if q else 600,
            'get_param_as_int(%s): value = optional sign (none, -, encoded +) + 1-2 free digits; min_value/max_value in [-3,3], each '
            'optional; store symbolic' % tag))
        P.append(_getter_part(
            'int_flags_%s' % tag,
            'ds: str, mx: int, required: bool, use_default: bool, default: int, use_store: bool',
            ['len(ds) == 1', '-3 <= mx <= 3 and -3 <= default <= 3'],
            "int_case(%d, 0, ds, '', False, 0, True, mx, required, use_default, default, use_store)" % asgi,
            200 if q else 600,
            'get_param_as_int(%s): one free digit, max_value in [-3,3], required/default/store symbolic' % tag))
        P.append(_getter_part(
            'int_last_%s' % tag,
            'ds: str, mx: int, use_store: bool',
            ['len(ds) == 1', '-3 <= mx <= 3'],
            "int_case(%d, 0, ds, '7', False, 0, True, mx, False, False, 0, use_store)" % asgi, 150,
            'get_param_as_int(%s) with a repeated name: the last occurrence decides' % tag))
        P.append(_getter_part(
            'int_missing_%s' % tag, 'junk: int, required: bool, use_default: bool, default: int, use_store: bool',
            ['0 <= junk <= 7', '-3 <= default <= 3'],
            'int_missing_case(%d, junk, required, use_default, default, use_store)' % asgi, 150,
            'get_param_as_int(%s) on a menu of non-integers / missing parameter: 400 classes, default, store untouched' % tag))
        P.append(_getter_part(
            'bool_%s' % tag, 'i: int, two: bool, blank_as_true: bool, required: bool, use_default: bool, default: bool, use_store: bool',
            ['0 <= i < %d' % len(BOOL_MENU)],
            'bool_case(%d, i, two, blank_as_true, required, use_default, default, use_store)' % asgi, 200,
            'get_param_as_bool(%s) over a menu of %d raw values (all documented true/false spellings, blank, near misses)' % (
                tag, len(BOOL_MENU))))
        P.append(_getter_part(
            'list_int_%s' % tag, 'v: str, csv: bool, kb: bool, use_store: bool',
            ['len(v) <= 2', "all(('0' <= c <= '9') or c == 'a' for c in v)"],
            'list_case(%d, v, csv, kb, True, False, use_store)' % asgi, 200 if q else 600,
            "get_param_as_list(%s, transform=int) on 'x=e0,e1&x=7' with e0, e1 a digit, 'a' or blank" % tag))
        P.append(_getter_part(
            'list_%s' % tag, 'v: str, csv: bool, kb: bool, required: bool, use_store: bool',
            ['len(v) <= 2'],
            'list_case(%d, v, csv, kb, False, required, use_store)' % asgi, 250 if q else 600,
            "get_param_as_list(%s) on 'x=e0,e1&x=7' with e0, e1 one free ASCII character or blank; csv/keep_blank/transform symbolic" % tag))
    for kind in range(4):
        for (a, b) in (((0, 1), (2, 3), (3, 0)) if q else [(a, b) for a in range(4) for b in range(4) if a != b]):
            if q and kind >= 2 and (a, b) != (0, 1):
                continue
            P.append(_getter_part(
                'roundtrip_kind%d_keys%d%d' % (kind, a, b), 'v1: str, v2: str, cdl: bool',
                ['len(v1) == 1 and len(v2) <= 1'] + (['ord(v1) < 128 and (len(v2) == 0 or ord(v2) < 128)'] if q else []),
                'roundtrip_case(%d, %d, v1, v2, %d, cdl)' % (a, b, kind), 200 if q else 900,
                'to_query_str -> parse_query_string round trip: keys %r and %r, values of <= 1 free %scharacter; second value '
                'kind = %s; comma_delimited_lists symbolic' % (KEYS[a], KEYS[b], 'ASCII ' if q else '',
                                                               ['str', 'list of 2', 'bool', 'int'][kind])))
    return P
