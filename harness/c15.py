"""C15 -- response headers act as a case-insensitive map; cookies get separate lines; URI helpers emit ASCII.

Real code: falcon.Response / falcon.asgi.Response header API, typed header properties,
set_cookie/unset_cookie, _wsgi_headers/_asgi_headers, Request cookie parsing (echo),
location/content_location/append_link/downloadable_as/viewable_as.
Oracle: a dict-of-lower-case-names model; an RFC 6265 Set-Cookie reader; C10's decoder.
"""
import engine.loader as _l
_l.install()

import datetime  # noqa: E402

import falcon  # noqa: E402
import falcon.asgi  # noqa: E402
import falcon.response_helpers as RH  # noqa: E402
import falcon.util.uri as U  # noqa: E402
from falcon.response import Response, ResponseOptions  # noqa: E402

import engine.rt as _rt  # noqa: E402
from engine.envmodels import make_environ, make_scope  # noqa: E402
from engine.rt import fail, pick, pickb  # noqa: E402
from harness.c10 import (REAL_TABLE, RESERVED, STUB_TABLE, UNRESERVED, _ECLS, _ECLS_DESC, _encoders, _fully_escaped,  # noqa: E402
                         is_reserved, is_unreserved, ref_decode)

import http.cookies as _hc  # noqa: E402


def _fixed_getdate(future=0, weekdayname=_hc._weekdayname, monthname=_hc._monthname):
    # http.cookies._getdate with the clock pinned to 1e9 (expires=-1 means "now - 1 s"; the real one reads time.time(),
    # which the engine models as a fresh symbolic float)
    import time as _t
    year, month, day, hh, mm, ss, wd, y, z = _t.gmtime(1000000000 + future)
    return '%s, %02d %3s %4d %02d:%02d:%02d GMT' % (weekdayname[wd], day, monthname[month], year, hh, mm, ss)


_hc._getdate = _fixed_getdate

PROPERTY = 'C15'
UNITS = ['falcon.response.Response.set_header/append_header/delete_header/set_headers/get_header/headers',
         'typed header properties (content_type, cache_control, etag, vary, retry_after, content_length, location, '
         'content_location, downloadable_as, viewable_as)', 'Response.append_link', 'Response.set_cookie/unset_cookie',
         'Response._wsgi_headers', 'falcon.asgi.Response._asgi_headers', 'falcon.request_helpers._parse_cookie_header (echo)',
         'falcon.response_helpers._format_content_disposition', 'falcon.util.misc.secure_filename']
STUBS = [
    'clock: http.cookies.time() returns the constant 1e9 (2001-09-09T01:46:40Z), so an unset cookie must carry exactly expires = that instant - 1 s',
    'header names come from a menu of casings by symbolic index (names are dict keys); values are symbolic strings',
    'cookie names from a menu (legal, illegal, non-ASCII); cookie values symbolic',
    'URI encoders inside falcon.response / response_helpers re-created over the arithmetic per-byte model (validated in C10)',
    'file names for downloadable_as/viewable_as are composed from a menu of characters (ASCII, NFKD-stable non-ASCII letters and '
    'digits, decomposable letters, symbols): unicodedata.normalize is C code and realizes its input',
    'a target that is already a well-formed escaped string is emitted unchanged (documented check-escaped behaviour)',
]
OUTSIDE = ['expires as arbitrary datetimes (menu)', 'header values beyond latin-1 on WSGI', 'histories longer than 3 operations']
BUDGET = {'quick': 380, 'thorough': 900}

NAMES = ['X-A', 'x-a', 'Content-Type', 'CONTENT-TYPE']
COOKIE_HDR = ['Set-Cookie', 'set-cookie', 'SET-COOKIE']


def _mkresp(asgi=False):
    return (falcon.asgi.Response if asgi else Response)(options=ResponseOptions())


# ---------------------------------------------------------------- map model
OPS = {0: 'set_header', 1: 'append_header', 2: 'delete_header', 3: 'set_headers(dict)', 4: 'set_headers(list)',
       5: 'typed set', 6: 'typed set None', 7: 'append_link', 8: 'set_cookie', 9: 'unset_cookie', 10: "append_header('Set-Cookie')",
       11: 'plain call on Set-Cookie'}
TYPED = ['content_type', 'cache_control', 'vary', 'etag', 'retry_after', 'content_length', 'accept_ranges', 'content_range_unit']


def _typed_apply(resp, model, ti, v, n, none):
    """typed property #ti <- value built from (v, n); mirrors into the model."""
    name = TYPED[ti]
    if name == 'content_type':
        resp.content_type = None if none else v
        key, val = 'content-type', v
    elif name == 'cache_control':
        resp.cache_control = None if none else [v, 'x']
        key, val = 'cache-control', v + ', x'
    elif name == 'vary':
        resp.vary = None if none else [v]
        key, val = 'vary', v
    elif name == 'etag':
        if not none and (v == '' or '"' in v):
            return  # empty / pre-quoted entity-tags: outside the model (falcon only inspects the last character)
        resp.etag = None if none else v
        key = 'etag'
        val = '"' + v + '"'
    elif name == 'retry_after':
        resp.retry_after = None if none else n
        key, val = 'retry-after', str(n)
    elif name == 'content_length':
        resp.content_length = None if none else n
        key, val = 'content-length', str(n)
    elif name == 'accept_ranges':
        resp.accept_ranges = None if none else v
        key, val = 'accept-ranges', v
    else:
        return
    if none:
        model.pop(key, None)
    else:
        model[key] = val


def map_case(ops, ni, vals, nums, asgi):
    """ops: tuple of op codes (shape); ni: name indexes; vals: values; nums: ints for the numeric typed properties."""
    for v in vals:
        for ch in v:
            if ord(ch) > 255:
                return 2   # header values are latin-1 at most (the property's alphabet)
    resp = _mkresp(asgi)
    model = {}
    cookies = {}       # name -> value
    raw_cookies = []
    for k, op in enumerate(ops):
        name = NAMES[ni[k] % len(NAMES)]
        v = vals[k]
        low = name.lower()
        if op == 0:
            resp.set_header(name, v)
            model[low] = v
        elif op == 1:
            resp.append_header(name, v)
            model[low] = (model[low] + ', ' + v) if low in model else v
        elif op == 2:
            resp.delete_header(name)
            model.pop(low, None)
        elif op == 3:
            resp.set_headers({name: v})
            model[low] = v
        elif op == 4:
            resp.set_headers([(name, v), ('X-B', 'b')])
            model[low] = v
            model['x-b'] = 'b'
        elif op == 5:
            _typed_apply(resp, model, ni[k] % len(TYPED), v, nums[k], False)
        elif op == 6:
            _typed_apply(resp, model, ni[k] % len(TYPED), v, nums[k], True)
        elif op == 7:
            resp.append_link('/t', 'next')
            lk = '</t>; rel=next'
            model['link'] = (model['link'] + ', ' + lk) if 'link' in model else lk
        elif op == 8:
            resp.set_cookie('c%d' % (ni[k] % 2), 'v')
            cookies['c%d' % (ni[k] % 2)] = 'v'
        elif op == 9:
            resp.unset_cookie('c%d' % (ni[k] % 2))
            cookies['c%d' % (ni[k] % 2)] = ''
        elif op == 10:
            # a raw cookie line that may share its NAME with a helper-written cookie (a different Path makes it a distinct cookie)
            rawline = 'c%d=raw; Path=/x' % (ni[k] % 2)
            resp.append_header(COOKIE_HDR[ni[k] % 3], rawline)
            raw_cookies.append(rawline)
        elif op == 11:
            # Set-Cookie can be neither read, overwritten nor deleted through the plain-header calls
            which = ni[k] % 3
            try:
                if which == 0:
                    resp.get_header(COOKIE_HDR[ni[k] % 3])
                elif which == 1:
                    resp.set_header(COOKIE_HDR[(ni[k] + 1) % 3], v)
                else:
                    resp.delete_header(COOKIE_HDR[(ni[k] + 2) % 3])
                return fail(lambda: 'plain header call #%d on Set-Cookie did not raise HeaderNotSupported' % which)
            except falcon.HeaderNotSupported:
                pass
            try:
                resp.set_headers([(COOKIE_HDR[ni[k] % 3], v)])
                return fail('set_headers accepted Set-Cookie')
            except falcon.HeaderNotSupported:
                pass
            try:
                resp.set_headers({COOKIE_HDR[(ni[k] + 1) % 3]: v})     # ... nor through the mapping form of the bulk call
                return fail('set_headers(mapping) accepted Set-Cookie')
            except falcon.HeaderNotSupported:
                pass
        # read back in every casing
        for probe in NAMES + ['Link', 'X-B', 'Retry-After', 'Content-Length', 'ETag', 'Cache-Control', 'Accept-Ranges']:
            got = resp.get_header(probe)
            exp = model.get(probe.lower())
            if got != exp:
                return fail(lambda: 'after %s: get_header(%r) = %r, model holds %r' % ([OPS[o] for o in ops[:k + 1]], probe, got, exp))
        if dict(resp.headers) != model:
            return fail(lambda: 'after %s: headers = %r, model %r' % ([OPS[o] for o in ops[:k + 1]], dict(resp.headers), model))
    # the list handed to the server
    if asgi:
        raw = resp._asgi_headers()
        for a, b in raw:
            if type(a) is not bytes or type(b) is not bytes or a != a.lower():
                return fail(lambda: 'ASGI header pair %r is not lower-case bytes' % ((a, b),))
        plain_b = sorted((a, b) for a, b in raw if a != b'set-cookie')
        model_b = sorted((k.encode('latin-1'), v.encode('latin-1')) for k, v in model.items())
        if plain_b != model_b:
            return fail(lambda: 'ASGI server header list %r, model %r' % (plain_b, model_b))
        items = [(a.decode('latin-1'), b.decode('latin-1')) for a, b in raw if a == b'set-cookie']
    else:
        items = resp._wsgi_headers()
        plain = [(a, b) for a, b in items if a.lower() != 'set-cookie']
        if sorted(plain) != sorted(model.items()):
            return fail(lambda: 'server header list %r, model %r' % (plain, model))
    sc = [b for a, b in items if a.lower() == 'set-cookie']
    if len(sc) != len(cookies) + len(raw_cookies):
        return fail(lambda: '%d Set-Cookie lines for %d cookies + %d raw' % (len(sc), len(cookies), len(raw_cookies)))
    for cname, cval in cookies.items():
        mine = [line for line in sc if line.startswith(cname + '=') and line not in raw_cookies]
        if len(mine) != 1:
            return fail(lambda: 'cookie %s has %d Set-Cookie lines of its own (all lines: %r)' % (cname, len(mine), sc))
        if cval == '' and 'expires=' not in mine[0].lower():
            return fail(lambda: 'unset cookie %s is not expired: %r' % (cname, mine[0]))
    for rawline in raw_cookies:
        if sc.count(rawline) != raw_cookies.count(rawline):
            return fail(lambda: 'raw Set-Cookie line %r emitted %d times, appended %d times (all lines: %r)' % (
                rawline, sc.count(rawline), raw_cookies.count(rawline), sc))
    return 1


# ---------------------------------------------------------------- typed numeric properties (boundary values)
def numeric_case(which, n, asgi):
    resp = _mkresp(asgi)
    if which == 0:
        resp.retry_after = n
        got = resp.get_header('retry-after')
    elif which == 1:
        resp.content_length = n
        got = resp.get_header('CONTENT-LENGTH')
    else:
        resp.set_header('X-N', n)
        got = resp.get_header('x-n')
    if got != str(n):
        return fail(lambda: 'numeric header #%d set to %r reads back %r' % (which, n, got))
    return 1


# ---------------------------------------------------------------- cookies
CNAMES = ['a', 'sid', 'a b', 'a;b', '\xe9', '', 'foo-bar_1']
SAMESITE = [None, 'Lax', 'lax', 'STRICT', 'none', 'bogus', '']
EXPIRES = [None, datetime.datetime(2030, 1, 2, 3, 4, 5), datetime.datetime(2030, 1, 2, 3, 4, 5, tzinfo=datetime.timezone.utc),
           datetime.datetime(1970, 1, 1, 0, 0, 0),
           datetime.datetime(2030, 1, 2, 5, 4, 5, tzinfo=datetime.timezone(datetime.timedelta(hours=2)))]
EXPIRES_TXT = [None, 'Wed, 02 Jan 2030 03:04:05 GMT', 'Wed, 02 Jan 2030 03:04:05 GMT', 'Thu, 01 Jan 1970 00:00:00 GMT',
               'Wed, 02 Jan 2030 03:04:05 GMT']


def _parse_set_cookie(line):
    """RFC 6265 section 5.2 reader -> (name, value, {attr-lower: value or True})"""
    parts = line.split(';')
    nv = parts[0]
    i = nv.find('=')
    name, value = nv[:i], nv[i + 1:]
    attrs = {}
    for p in parts[1:]:
        p = p.strip()
        j = p.find('=')
        if j < 0:
            attrs[p.lower()] = True
        else:
            attrs[p[:j].lower()] = p[j + 1:]
    return name, value, attrs


def cookie_case_menu(ci, value, ma_kind, max_age, secure, by_default, http_only, ssi, partitioned, domain, path, ei, asgi, wins=None):
    """cookie_case with every argument realized through the solver first (one branch per value: a finite table).  `wins`:
    code-point windows the characters of `value` are picked from."""
    if wins is not None:
        n = pick(len(value), 0, 2)
        chars = []
        for i in range(n):
            o = ord(value[i])
            for lo, hi in wins:
                if lo <= o <= hi:
                    chars.append(chr(pick(o, lo, hi)))
                    break
            else:
                return 2
        value = ''.join(chars)
    return cookie_case(ci, value, pick(ma_kind, 0, 3), pick(max_age, 0, 2), pick(secure, 0, 2), pickb(by_default), http_only,
                       pick(ssi, 0, len(SAMESITE) - 1), partitioned, domain, path, ei, asgi)


def cookie_case(ci, value, ma_kind, max_age, secure, by_default, http_only, ssi, partitioned, domain, path, ei, asgi):
    opts = ResponseOptions()
    opts.secure_cookies_by_default = by_default
    resp = (falcon.asgi.Response if asgi else Response)(options=opts)
    name = CNAMES[ci]
    sec = [None, True, False][secure]
    ma = None
    if ma_kind == 1:
        ma = max_age
    elif ma_kind == 2:
        ma = float(max_age) + 0.5
    elif ma_kind == 3:
        ma = str(max_age)
    ss = SAMESITE[ssi]
    legal_name = ci in (0, 1, 6)
    value_ok = True
    for ch in value:
        if ord(ch) > 127:
            value_ok = False
    try:
        resp.set_cookie(name, value, expires=EXPIRES[ei], max_age=ma, domain=domain or None, path=path or None, secure=sec,
                        http_only=http_only, same_site=ss, partitioned=partitioned)
    except KeyError:
        if legal_name:
            return fail(lambda: 'set_cookie(%r) raised KeyError for a legal name' % (name,))
        return 1
    except ValueError:
        if value_ok and (ss is None or ss == '' or ss.lower() in ('lax', 'strict', 'none')):
            return fail(lambda: 'set_cookie(%r, %r, same_site=%r) raised ValueError' % (name, value, ss))
        return 1
    if not legal_name:
        return fail(lambda: 'set_cookie accepted the illegal name %r' % (name,))
    if not value_ok:
        return fail('set_cookie accepted a non-ASCII value')
    if ss is not None and ss != '' and ss.lower() not in ('lax', 'strict', 'none'):
        return fail(lambda: 'set_cookie accepted same_site=%r' % (ss,))
    lines = [b for a, b in resp._wsgi_headers() if a == 'set-cookie']
    if len(lines) != 1:
        return fail(lambda: '%d Set-Cookie lines for one cookie' % len(lines))
    cname, cvalue, attrs = _parse_set_cookie(lines[0])
    if cname != name:
        return fail(lambda: 'cookie name %r emitted as %r' % (name, cname))
    want = {}
    if EXPIRES[ei] is not None:
        want['expires'] = EXPIRES_TXT[ei]
    if ma_kind != 0:
        want['max-age'] = str(max_age)
    if domain:
        want['domain'] = domain
    if path:
        want['path'] = path
    if sec is True or (sec is None and by_default):
        want['secure'] = True
    if http_only:
        want['httponly'] = True
    if ss:
        want['samesite'] = ss.lower().capitalize()
    if partitioned:
        want['partitioned'] = True
    if attrs != want:
        return fail(lambda: 'set_cookie(%r, %r, ...) emitted attributes %r, requested %r  (line %r)' % (name, value, attrs, want, lines[0]))
    # echo: the request API must read the same name and value back
    req = falcon.Request(make_environ(headers=[('Cookie', cname + '=' + cvalue)]))
    got = req.get_cookie_values(name)
    if got != [value]:
        return fail(lambda: 'cookie %r=%r emitted as %r is read back as %r' % (name, value, lines[0], got))
    if req.cookies.get(name) != value:
        return fail(lambda: 'req.cookies[%r] = %r' % (name, req.cookies.get(name)))
    return 1


def unset_case(ci, domain, path, after_set, asgi):
    resp = _mkresp(asgi)
    name = CNAMES[ci]
    if ci not in (0, 1, 6):
        return 2
    if after_set:
        resp.set_cookie(name, 'v', max_age=10)
    resp.unset_cookie(name, domain=domain or None, path=path or None)
    lines = [b for a, b in resp._wsgi_headers() if a == 'set-cookie']
    if len(lines) != 1:
        return fail(lambda: '%d Set-Cookie lines after unset_cookie' % len(lines))
    cname, cvalue, attrs = _parse_set_cookie(lines[0])
    if cname != name or cvalue not in ('', '""'):
        return fail(lambda: 'unset cookie line %r' % (lines[0],))
    exp = attrs.get('expires')
    if exp != 'Sun, 09 Sep 2001 01:46:39 GMT':
        return fail(lambda: 'unset cookie is not expired (expires must lie in the past of the clock, 2001-09-09 01:46:40): %r' % (lines[0],))
    if (domain and attrs.get('domain') != domain) or (path and attrs.get('path') != path):
        return fail(lambda: 'unset_cookie lost domain/path: %r' % (lines[0],))
    return 1


# ---------------------------------------------------------------- URI-bearing helpers
def _swap_encoders():
    """Under CrossHair: the encoders falcon.response captured at import are replaced by model-backed twins."""
    import falcon.response as R
    if _rt.CONCRETE:
        return lambda: None
    enc = _encoders()
    saved = (R.uri_encode, R.uri_encode_value, RH.uri.encode_value)
    R.uri_encode = enc[2]          # encode_check_escaped
    R.uri_encode_value = enc[3]    # encode_value_check_escaped
    RH.uri.encode_value = enc[1]
    U._HEX_TO_BYTE = STUB_TABLE

    def restore():
        R.uri_encode, R.uri_encode_value, RH.uri.encode_value = saved
        U._HEX_TO_BYTE = REAL_TABLE
    return restore


def _ascii(s):
    for ch in s:
        if ord(ch) > 127:
            return False
    return True


def uri_case(which, target, asgi):
    for ch in target:
        if 0xD800 <= ord(ch) <= 0xDFFF:
            return 2
    resp = _mkresp(asgi)
    restore = _swap_encoders()
    try:
        if which == 0:
            resp.location = target
            out = resp.get_header('location')
            part = out
        elif which == 1:
            resp.content_location = target
            out = resp.get_header('content-location')
            part = out
        elif which == 2:
            resp.append_link(target, 'next')
            out = resp.get_header('link')
            if not (out.startswith('<') and out.endswith('>; rel=next')):
                return fail(lambda: 'append_link(%r) -> %r' % (target, out))
            part = out[1:-len('>; rel=next')]
        else:
            resp.append_link('/x', 'next', title_star=('en', target), anchor=target)
            out = resp.get_header('link')
            pre = "</x>; rel=next; title*=UTF-8'en'"
            if not out.startswith(pre):
                return fail(lambda: 'append_link title_star -> %r' % (out,))
            rest = out[len(pre):]
            k = rest.find('; anchor="')
            part = rest[:k]
        if not _ascii(out):
            return fail(lambda: 'helper #%d(%r) emitted a non-ASCII header value %r' % (which, target, out))
        back = U.decode(part, False)
    finally:
        restore()
    allowed = UNRESERVED if which == 3 else UNRESERVED + RESERVED
    if _fully_escaped(target, allowed):
        if part != target:
            return fail(lambda: 'helper #%d changed the already escaped %r into %r' % (which, target, part))
        return 1
    if back != target:
        return fail(lambda: 'helper #%d(%r) emitted %r which decodes to %r' % (which, target, part, back))
    return 1


FCHARS = ['a', 'Z', '7', '.', '-', '_', ' ', '/', '"', '\xdf', '\xf8', 'Ł', '\xe9', '\U0001d7cf', '\xbd', 'я', '٣', '中',
          '\\', '%']


def disposition_case(i0, i1, i2, viewable, asgi):
    name = FCHARS[i0] + FCHARS[i1] + FCHARS[i2]
    resp = _mkresp(asgi)
    if viewable:
        resp.viewable_as = name
    else:
        resp.downloadable_as = name
    out = resp.get_header('content-disposition')
    kind = 'inline' if viewable else 'attachment'
    if not _ascii(out):
        return fail(lambda: 'Content-Disposition for %r is not pure ASCII: %r' % (name, out))
    if not out.startswith(kind + '; filename='):
        return fail(lambda: 'Content-Disposition %r' % (out,))
    if _ascii(name):
        if out != '%s; filename="%s"' % (kind, name):
            return fail(lambda: 'ASCII name %r emitted as %r' % (name, out))
        return 1
    k = out.find("; filename*=UTF-8''")
    if k < 0:
        return fail(lambda: 'non-ASCII name %r without filename*: %r' % (name, out))
    ext = out[k + len("; filename*=UTF-8''"):]
    if ref_decode(ext, False) != name:
        return fail(lambda: 'filename* %r decodes to %r, original %r' % (ext, ref_decode(ext, False), name))
    return 1


# ---------------------------------------------------------------- partitions
def _part(name, args, pre, call, timeout, bounds):
    src = '''
def h(%s) -> int:
    """
%s    post: _ != 0
    """
    return %s
''' % (args, ''.join('    pre: %s\n' % p for p in pre), call)
    return {'name': name, 'fn': 'h', 'src': src, 'timeout': timeout, 'bounds': bounds}


def partitions(tier, seed):
    P = []
    q = tier == 'quick'
    pairs = [(0, 1), (1, 2), (0, 2), (3, 1), (4, 0), (5, 0), (5, 6), (6, 5), (1, 1), (7, 7), (8, 10), (10, 9), (8, 9), (11, 8), (0, 5), (10, 10),
             (5, 1), (2, 1), (1, 3)]
    triples = [(0, 1, 2), (0, 2, 1), (1, 2, 1), (5, 1, 6), (8, 9, 8), (10, 11, 8), (3, 1, 0), (8, 10, 10), (10, 8, 10)]
    four = [(0, 1, 2, 1)]
    if q:
        triples = [(0, 2, 1), (5, 1, 6), (8, 9, 8), (10, 11, 8), (8, 10, 10)]
    hist = pairs + triples + four
    if not q:
        hist = hist + [(a, b, c) for a in (0, 1, 5) for b in range(8) for c in (0, 1, 2)]
    seen = set()
    for ops in hist:
        if ops in seen:
            continue
        seen.add(ops)
        n = len(ops)
        for asgi in ((0, 1) if (not q or ops.count(10) >= 2 or ops == (11, 8)) else (len(seen) % 2,)):
            # the name / typed-property index is symbolic only for the operations that use it
            sym = [k for k in range(n) if ops[k] in (0, 1, 2, 3, 4, 5, 6, 11)]
            args = ', '.join(['i%d: int' % k for k in sym] + ['v%d: str' % k for k in range(n)] + ['num: int'])
            pre = ['0 <= i%d < %d' % (k, max(len(NAMES), len(TYPED)) if ops[k] in (5, 6) else len(NAMES)) for k in sym]
            pre += ['len(v%d) <= %d' % (k, 1 if q else 2) for k in range(n)] + ['0 <= num <= 2']
            P.append(_part('map_%s_%s' % ('asgi' if asgi else 'wsgi', '-'.join(str(o) for o in ops)), args, pre,
                           'map_case(%r, [%s], [%s], [%s], %d)' % (ops, ', '.join(('i%d' % k) if k in sym else '0' for k in range(n)),
                                                                   ', '.join('v%d' % k for k in range(n)),
                                                                   ', '.join('num' for k in range(n)), asgi),
                           150 if q else 500,
                           'header history %s on %s: names by symbolic index from %r (typed property by the same index over %r), values '
                           'any latin-1 strings of <= %d characters, numeric value 0..2; after every step all casings + .headers vs the map '
                           'model, finally the server header list' % ([OPS[o] for o in ops], 'falcon.asgi.Response' if asgi else 'falcon.Response',
                                                                      NAMES, TYPED, 1 if q else 2)))
    for which in range(3):
        P.append(_part('numeric_%d' % which, 'n: int, asgi: bool', ['0 <= n <= 30'], 'numeric_case(%d, n, asgi)' % which, 100,
                       '%s = n for every integer 0 <= n <= 30 (0 included; str() realizes the int) reads back as str(n)' % ['retry_after', 'content_length', 'set_header'][which]))
    cshapes = [(0, 0, 0, '', ''), (1, 2, 1, 'd.x', '/p'), (6, 1, 0, '', '/'), (2, 0, 1, '', ''), (3, 0, 0, '', ''), (4, 0, 1, '', ''),
               (5, 0, 0, '', ''), (0, 3, 1, 'x', ''), (1, 4, 0, '', '')]
    VALPRE = "all((33 <= ord(c) <= 126 and c not in (',', ';', chr(92), chr(34))) for c in value) or any(ord(c) > 127 for c in value)"
    for si, (ci, ei, flag, dom, pth) in enumerate(cshapes):
        for asgi in ((si % 2,) if q else (0, 1)):
            side = 'asgi' if asgi else 'wsgi'
            tail = '%s, %%s, %s, %r, %r, %d, %d' % (bool(flag), bool(1 - flag), dom, pth, ei, asgi)
            shape = 'set_cookie(name=%r, expires menu #%d, http_only=%s, partitioned=%s, domain=%r, path=%r)' % (
                CNAMES[ci], ei, bool(flag), bool(1 - flag), dom, pth)
            # (a) the value is free, the option arguments are one fixed combination (rotating with the shape)
            mk, mx, sc, bd, ss = si % 4, (si + 1) % 3, (si + 2) % 3, bool(si % 2), (si * 2 + 1) % len(SAMESITE)
            L = 2
            # quick: the free characters come from two short code-point windows (legal 'x'..'~' -- the upper edge of the
            # cookie-octet range -- and U+0080..U+0083); http.cookies / the cookie parser fork once per distinct character,
            # so the full alphabet (thorough) does not exhaust within minutes
            QWIN = "all((120 <= ord(c) <= 126) or (128 <= ord(c) <= 131) for c in value)"
            P.append(_part('cookie_val_%s_name%d_exp%d_f%d' % (side, ci, ei, flag), 'value: str',
                           ['len(value) <= %d' % L, QWIN if q else VALPRE],
                           ('cookie_case_menu(%d, value, %d, %d, %d, %s, %s, wins=((120, 126), (128, 131)))' if q else
                            'cookie_case(%d, value, %d, %d, %d, %s, %s)') % (ci, mk, mx, sc, bd, tail % ss), 150 if q else 600,
                           ('%s: value <= %d free characters (%s), options fixed at max_age kind %d/%d, secure %r, '
                            'secure_cookies_by_default %s, same_site %r; Set-Cookie parsed by an RFC 6265 reader and echoed back through '
                            'Request.cookies.  The value x options cross product is in cookie_joint_* (thorough)') % (
                               shape, L, 'code points 120..126 or 128..131' if q else 'cookie-octets or non-ASCII', mk, mx,
                               [None, True, False][sc], bd, SAMESITE[ss])))
            # (b) the option arguments are free, the value is one of two fixed strings
            P.append(_part('cookie_opt_%s_name%d_exp%d_f%d' % (side, ci, ei, flag),
                           'ma_kind: int, max_age: int, secure: int, by_default: bool, ssi: int',
                           ['0 <= ma_kind <= 3', '0 <= max_age <= %d' % (1 if q else 2), '0 <= secure <= 2', '0 <= ssi < %d' % len(SAMESITE)],
                           "cookie_case_menu(%d, 'v1', ma_kind, max_age, secure, by_default, %s)" % (ci, tail % 'ssi'),
                           150 if q else 600,
                           "%s: value 'v1', max_age int/float/str in 0..%d (0 included), secure tri-state x "
                           'secure_cookies_by_default, same_site menu of %d; every attribute set against the request' % (shape, 1 if q else 2, len(SAMESITE))))
            if not q:
                P.append(_part('cookie_joint_%s_name%d_exp%d_f%d' % (side, ci, ei, flag),
                               'value: str, ma_kind: int, max_age: int, secure: int, by_default: bool, ssi: int',
                               ['len(value) <= 1', '0 <= ma_kind <= 3', '0 <= max_age <= 2', '0 <= secure <= 2',
                                '0 <= ssi < %d' % len(SAMESITE), VALPRE],
                               'cookie_case(%d, value, ma_kind, max_age, secure, by_default, %s)' % (ci, tail % 'ssi'), 900,
                               '%s: value <= 1 free character x all option combinations' % shape))
    for asgi in (0, 1):
        P.append(_part('unset_%s' % ('asgi' if asgi else 'wsgi'), 'ci: int, dp: int, after_set: bool',
                       ['ci in (0, 1, 6)', '0 <= dp <= 3'],
                       "unset_case(ci, ('', 'd.x')[dp %% 2], ('', '/p')[dp // 2], after_set, %d)" % asgi, 150,
                       'unset_cookie: expired, one line, domain/path kept'))
    hn = ['location', 'content_location', 'append_link(target)', 'append_link(title_star, anchor)']
    for which in range(4):
        cls1 = ['A', 'R', 'P', 'O', 'U']
        cls2 = ['PA', 'AP', 'PP', 'OP', 'PO', 'RO'] if q else [a + b for a in 'ARPOU' for b in 'ARPOU']
        cls3 = ['PHH', 'PAO'] if q else ['PHH', 'PAO', 'PHO', 'OPH', 'PHU', 'UPH', 'APA', 'PPH']
        for cls in cls1 + cls2 + cls3:
            pre = ['len(t) == %d' % len(cls)] + [_ECLS[k].format(c='t[%d]' % i) for i, k in enumerate(cls)]
            P.append(_part('uri_helper%d_%s' % (which, cls), 't: str, asgi: bool', pre, 'uri_case(%d, t, asgi)' % which, 150 if q else 600,
                           '%s with a target whose characters have classes [%s]: pure ASCII output that decodes back to the target '
                           '(escaped input unchanged)' % (hn[which], ', '.join(_ECLS_DESC[k] for k in cls))))
    P.append(_part('disposition', 'i0: int, i1: int, viewable: bool, asgi: bool',
                   ['0 <= i0 < %d and i1 in (0, 3, 9, 12)' % len(FCHARS)],
                   'disposition_case(i0, i1, 0, viewable, asgi)', 300,
                   'downloadable_as / viewable_as for 3-character names over a menu of %d characters: pure ASCII header, filename* decodes '
                   'to the original' % len(FCHARS)))
    return P
