"""C07 -- request body streams deliver exactly the declared body: no loss, no over-read.

Real code: falcon.stream.BoundedStream (WSGI) over a pure-Python fake wsgi.input
that holds MORE than Content-Length bytes (a pipelined request) or fewer (a
truncated body) and counts every byte it hands out; falcon.asgi.stream.
BoundedStream (ASGI) through the loop-free trampoline over a scripted event list;
also through the real Request classes (lazy wrapping, Content-Length header).
Oracle: a cursor over body[:Content-Length].
"""
import engine.loader as _l
_l.install()

import io  # noqa: E402

import falcon  # noqa: E402
import falcon.asgi  # noqa: E402
import falcon.asgi.stream as astream  # noqa: E402
import falcon.stream as wstream  # noqa: E402
from falcon.errors import OperationNotAllowed  # noqa: E402

from engine.rt import fail, run_coro  # noqa: E402

PROPERTY = 'C07'
UNITS = ['falcon.stream.BoundedStream.*', 'falcon.asgi.stream.BoundedStream.*',
         'falcon.request.Request.bounded_stream/_get_wrapped_wsgi_input', 'falcon.asgi.request.Request.stream']
STUBS = [
    'wsgi.input = harness FakeInput (pure Python read/readline/readlines/__next__ over symbolic bytes; a PEP 3333 '
    'server: read(n) returns n bytes unless its data ends); it holds bytes beyond Content-Length and records what it hands out',
    'ASGI receive() = scripted event list; calling it after the terminal event (more_body falsy / disconnect) is a '
    '"would block" failure',
    'sizes < -1 are outside the documented interface (excluded by precondition)',
    'tell() is not compared after exhaust() (discarded bytes are not "returned"; the property does not define their count)',
]
OUTSIDE = ['histories longer than 3 operations', 'bodies longer than 6 bytes', 'more than 3 ASGI body events',
           'real socket-backed wsgi.input implementations with short reads']
BUDGET = {'quick': 300, 'thorough': 900}


# ------------------------------------------------------------------ WSGI
def clamp(n, hi):
    """Never slice symbolic bytes with an unbounded symbolic int (CrossHair enumerates its values)."""
    if n > hi:
        return hi
    return n


class FakeInput:
    """A PEP 3333 wsgi.input.  ``shorts``: optional short-read schedule for read() -- the k-th read(size)
    returns only shorts[k] bytes when 0 < shorts[k] < size (a raw socket input may do that)."""

    def __init__(self, raw, shorts=()):
        self.raw = raw
        self.pos = 0
        self.shorts = shorts
        self.k = 0

    def _take(self, n):
        n = clamp(n, len(self.raw) - self.pos)
        r = self.raw[self.pos:self.pos + n]
        self.pos += n
        return r

    def read(self, size=-1):
        rest = len(self.raw) - self.pos
        if size is None or size < 0 or size > rest:
            size = rest
        if self.k < len(self.shorts):
            sh = self.shorts[self.k]
            self.k += 1
            if 0 < sh < size:
                size = sh
        return self._take(size)

    def readline(self, limit=-1):
        rest = len(self.raw) - self.pos
        if limit is None or limit < 0 or limit > rest:
            limit = rest
        i = self.raw[self.pos:self.pos + limit].find(b'\n')
        if i >= 0:
            limit = i + 1
        return self._take(limit)

    def readlines(self, hint=-1):
        out = []
        tot = 0
        while True:
            line = self.readline()
            if not line:
                break
            out.append(line)
            tot += len(line)
            if hint is not None and 0 < hint <= tot:
                break
        return out

    def __iter__(self):
        return self

    def __next__(self):
        line = self.readline()
        if not line:
            raise StopIteration
        return line


class LCur:
    def __init__(self, d):
        self.d = d
        self.p = 0

    def read(self, n):
        rest = len(self.d) - self.p
        if n is None or n < 0 or n > rest:
            n = rest
        r = self.d[self.p:self.p + n]
        self.p += n
        return r

    def readline(self, n):
        rest = len(self.d) - self.p
        if n is None or n < 0 or n > rest:
            n = rest
        i = self.d[self.p:self.p + n].find(b'\n')
        if i >= 0:
            n = i + 1
        return self.read(n)

    def readlines(self, hint):
        out = []
        tot = 0
        while True:
            line = self.readline(-1)
            if not line:
                break
            out.append(line)
            tot += len(line)
            if hint is not None and 0 < hint <= tot:
                break
        return out


W_OPS = {0: 'read(n)', 1: 'read()', 2: 'readline(n)', 3: 'readline()', 4: 'readlines(h)', 5: 'next', 6: 'exhaust',
         7: 'readlines()', 8: 'iterate'}


def _w_apply(s, op, n):
    if op == 0:
        return s.read(n)
    if op == 1:
        return s.read()
    if op == 2:
        return s.readline(n)
    if op == 3:
        return s.readline()
    if op == 4:
        return s.readlines(n)
    if op == 5:
        try:
            return next(s)
        except StopIteration:
            return None
    if op == 6:
        s.exhaust()
        return b''
    if op == 7:
        return s.readlines()
    if op == 8:
        return [line for line in s]
    raise AssertionError(op)


def _w_model(m, op, n):
    if op == 0:
        return m.read(n)
    if op == 1:
        return m.read(-1)
    if op == 2:
        return m.readline(n)
    if op == 3:
        return m.readline(-1)
    if op == 4:
        return m.readlines(n)
    if op == 5:
        r = m.readline(-1)
        return r if r else None
    if op == 6:
        m.read(-1)
        return b''
    if op in (7, 8):
        return m.readlines(-1)
    raise AssertionError(op)


def wsgi_scenario(raw, cl, ops, via_request=False, shorts=()):
    if cl < 0:
        return 2
    fake = FakeInput(raw, shorts)
    if via_request:
        env = {'REQUEST_METHOD': 'POST', 'PATH_INFO': '/', 'QUERY_STRING': '', 'SERVER_NAME': 'h', 'SERVER_PORT': '80',
               'SERVER_PROTOCOL': 'HTTP/1.1', 'wsgi.url_scheme': 'http', 'wsgi.input': fake, 'wsgi.errors': None,
               'CONTENT_LENGTH': str(cl)}
        req = falcon.Request(env)
        s = req.bounded_stream
        if req.bounded_stream is not s:
            return fail('bounded_stream is re-wrapped on every access')
    else:
        s = wstream.BoundedStream(fake, cl)
    expected = raw[:clamp(cl, len(raw))]
    m = LCur(expected)
    k = 0
    for op, n in ops:
        a = _w_apply(s, op, n)
        if shorts and op in (0, 1):
            # the server may return short: the result must be the next bytes, at most n, non-empty unless at the end
            if op == 0 and n >= 0 and len(a) > n:
                return fail(lambda: 'op#%d read(%r) returned %d bytes' % (k, n, len(a)))
            if a != expected[m.p:m.p + len(a)]:
                return fail(lambda: 'op#%d %s n=%r: %r is not the next bytes of %r at %d' % (k, W_OPS[op], n, a, expected, m.p))
            if not a and m.p != len(expected) and not (op == 0 and n == 0):
                return fail(lambda: 'op#%d %s n=%r returned nothing with %d bytes left' % (k, W_OPS[op], n, len(expected) - m.p))
            m.p += len(a)
        else:
            b = _w_model(m, op, n)
            if a != b:
                return fail(lambda: 'op#%d %s n=%r: real %r != expected %r (body=%r, Content-Length=%r)' % (
                    k, W_OPS[op], n, a, b, raw, cl))
        if fake.pos > cl:
            return fail(lambda: 'after op#%d %s: wsgi.input handed out %d bytes, Content-Length is %d' % (k, W_OPS[op], fake.pos, cl))
        if s.eof and m.p != len(expected):
            return fail(lambda: 'after op#%d %s: eof True with %d bytes left' % (k, W_OPS[op], len(expected) - m.p))
        if m.p == len(expected) and cl <= len(raw) and not s.eof:
            return fail(lambda: 'after op#%d %s: all %d bytes delivered but eof False' % (k, W_OPS[op], cl))
        k += 1
    # drain: repeated read() must deliver exactly the rest, then report end-of-stream
    rest = b''
    for _ in range(len(shorts) + 2):
        c = s.read()
        rest = rest + c
        if not c:
            break
    if rest != expected[m.p:]:
        return fail(lambda: 'draining read()s: real %r != expected rest %r' % (rest, expected[m.p:]))
    if fake.pos > cl:
        return fail('wsgi.input over-read while draining')
    if s.read(1) != b'' or not s.eof:
        return fail('eof not reported after the body was fully read')
    return 1


# ------------------------------------------------------------------ ASGI
class _WouldBlock(Exception):
    pass


class Script:
    """events: list of (kind, body) with kind in B L N E D (see module docstring)."""

    def __init__(self, spec, chunks):
        self.events = []
        ci = 0
        for kind in spec:
            if kind == 'D':
                self.events.append({'type': 'http.disconnect'})
                continue
            ev = {'type': 'http.request'}
            if kind != 'E':
                ev['body'] = chunks[ci]
                ci += 1
            if kind in ('B', 'E'):
                ev['more_body'] = True
            elif kind == 'L':
                ev['more_body'] = False
            # 'N': key absent
            self.events.append(ev)
        self.i = 0
        self.calls = 0

    def terminal(self, ev):
        return ev['type'] == 'http.disconnect' or not ev.get('more_body')

    def body(self):
        parts = []
        for ev in self.events:
            if ev['type'] != 'http.disconnect':
                parts.append(ev.get('body', b''))
            if self.terminal(ev):
                break
        return b''.join(parts)

    async def receive(self):
        self.calls += 1
        if self.i >= len(self.events) or (self.i > 0 and self.terminal(self.events[self.i - 1])):
            raise _WouldBlock()
        ev = self.events[self.i]
        self.i += 1
        return ev


A_OPS = {0: 'read(n)', 1: 'read()', 2: 'readall', 3: 'iterate', 4: 'exhaust', 5: 'close'}


async def _a_apply(s, op, n):
    if op == 0:
        return await s.read(n)
    if op == 1:
        return await s.read()
    if op == 2:
        return await s.readall()
    if op == 3:
        parts = []
        async for c in s:
            parts.append(c)
        return parts
    if op == 4:
        await s.exhaust()
        return b''
    if op == 5:
        s.close()
        return b''
    raise AssertionError(op)


def asgi_scenario(spec, chunks, cl, preload, ops, via_request=False):
    """cl: None or int."""
    if cl is not None and cl < 0:
        return 2
    spec = list(spec)
    if not spec or spec[-1] not in ('L', 'N', 'D'):
        spec.append('D')  # client goes away instead of blocking forever
    sc = Script(spec, chunks)
    body = sc.body()
    expected = body if cl is None else body[:clamp(cl, len(body))]
    first = None
    if preload:
        first = sc.events[0]
        sc.i = 1
    if via_request:
        hdrs = [] if cl is None else [(b'content-length', str(cl).encode())]
        scope = {'type': 'http', 'http_version': '1.1', 'method': 'POST', 'path': '/', 'query_string': b'',
                 'headers': hdrs, 'server': ('h', 80), 'client': ('c', 1), 'scheme': 'http', 'root_path': ''}
        req = falcon.asgi.Request(scope, sc.receive, first_event=first)
        s = req.stream
        if req.stream is not s:
            return fail('req.stream is re-wrapped on every access')
    else:
        s = astream.BoundedStream(sc.receive, first_event=first, content_length=cl)
    p = 0
    closed = False
    exhausted = False
    iterated = False
    k = 0
    for op, n in ops:
        try:
            a = run_coro(_a_apply(s, op, n))
        except OperationNotAllowed:
            if closed or (op == 3 and iterated):
                k += 1
                continue
            return fail(lambda: 'op#%d %s raised OperationNotAllowed on an open stream' % (k, A_OPS[op]))
        except ValueError:
            if closed and op == 4:
                k += 1
                continue
            return fail(lambda: 'op#%d %s raised ValueError' % (k, A_OPS[op]))
        except _WouldBlock:
            return fail(lambda: 'op#%d %s awaited receive() after the terminal event: would block forever' % (k, A_OPS[op]))
        if closed:
            if op == 5:
                k += 1
                continue
            if op == 3 and a == []:
                # an async-for over a closed stream: falcon raises inside the generator; reaching here means
                # the iteration silently yielded nothing, which is acceptable only at eof
                pass
            return fail(lambda: 'op#%d %s succeeded on a closed stream' % (k, A_OPS[op]))
        if op == 0:
            if len(a) > n and n >= 0:
                return fail(lambda: 'op#%d read(%r) returned %d bytes' % (k, n, len(a)))
            if n <= 0 and n != -1 and a != b'':
                return fail(lambda: 'op#%d read(%r) returned data' % (k, n))
            if n == -1:
                if a != expected[p:]:
                    return fail(lambda: 'op#%d read(-1): %r != rest %r' % (k, a, expected[p:]))
            else:
                if a != expected[p:p + len(a)]:
                    return fail(lambda: 'op#%d read(%r): %r is not the next bytes of %r at %d' % (k, n, a, expected, p))
                if not a and n > 0 and p != len(expected):
                    return fail(lambda: 'op#%d read(%r) returned nothing with %d bytes left' % (k, n, len(expected) - p))
            p += len(a)
        elif op in (1, 2):
            if a != expected[p:]:
                return fail(lambda: 'op#%d %s: %r != rest %r' % (k, A_OPS[op], a, expected[p:]))
            p = len(expected)
        elif op == 3:
            iterated = True
            j = b''.join(a)
            if j != expected[p:]:
                return fail(lambda: 'op#%d iteration: %r != rest %r' % (k, j, expected[p:]))
            p = len(expected)
        elif op == 4:
            exhausted = True
            p = len(expected)
        elif op == 5:
            closed = True
            p = len(expected)
        if not exhausted and not closed and s.tell() != p:
            return fail(lambda: 'after op#%d %s: tell() %r != bytes returned %r' % (k, A_OPS[op], s.tell(), p))
        if s.eof and p != len(expected):
            return fail(lambda: 'after op#%d %s: eof True with %d bytes left' % (k, A_OPS[op], len(expected) - p))
        if op in (1, 2, 3, 4, 5) and not s.eof:
            return fail(lambda: 'after op#%d %s: eof False although everything was consumed' % (k, A_OPS[op]))
        k += 1
    if not closed:
        try:
            rest = run_coro(s.readall())
        except _WouldBlock:
            return fail('final readall() awaited receive() after the terminal event: would block forever')
        if rest != expected[p:]:
            return fail(lambda: 'final readall(): %r != rest %r' % (rest, expected[p:]))
        if not s.eof:
            return fail('eof False after readall()')
    # receive() must not be awaited for events that cannot contribute bytes below Content-Length
    if cl is not None:
        need = 0
        tot = 0
        for ev in sc.events:
            if tot >= cl and need > 0:
                break
            need += 1
            tot += len(ev.get('body', b'')) if ev['type'] != 'http.disconnect' else 0
            if sc.terminal(ev):
                break
        if sc.i > max(need, 1 if preload else 0):
            return fail(lambda: 'receive() consumed %d events; only %d can carry bytes below Content-Length %d' % (sc.i, need, cl))
    return 1


# ------------------------------------------------------------------ partitions
_W_T = '''
def h(raw: bytes, cl: int{nargs}) -> int:
    """
    pre: len(raw) == {L}
    pre: 0 <= cl
{spre}{npre}    post: _ != 0
    """
    return wsgi_scenario(raw, cl, ({ops}){extra})
'''

_A_T = '''
def h(data: bytes{clarg}{nargs}) -> int:
    """
    pre: len(data) == {L}
{clpre}{npre}    post: _ != 0
    """
    chunks = [{chunks}]
    return asgi_scenario({spec!r}, chunks, {clv}, {preload}, ({ops}){extra})
'''


def _mkw(ops, L, via=False, timeout=150, shorts=0):
    nargs, npre, opsrc = '', '', []
    spre = ''
    extra = ', via_request=True' if via else ''
    if shorts:
        nargs += ''.join(', s%d: int' % i for i in range(shorts))
        spre = ''.join('    pre: 0 <= s%d <= %d\n' % (i, L) for i in range(shorts))
        extra += ', shorts=[%s]' % ', '.join('s%d' % i for i in range(shorts))
    for i, o in enumerate(ops):
        if o in (0, 2, 4):
            nargs += ', n%d: int' % i
            npre += '    pre: n%d >= -1\n' % i
            opsrc.append('(%d, n%d)' % (o, i))
        else:
            opsrc.append('(%d, -1)' % o)
    src = _W_T.format(L=L, nargs=nargs, npre=npre, spre=spre, ops=', '.join(opsrc) + ',', extra=extra)
    if via:
        # str(cl) on a symbolic int realizes it: bound it so the enumeration is finite
        src = src.replace('    pre: 0 <= cl\n', '    pre: 0 <= cl <= %d\n' % (L + 1))
    return {'name': 'wsgi%s%s_L%d_%s' % ('_req' if via else '', '_short%d' % shorts if shorts else '', L, '-'.join(W_OPS[o] for o in ops)), 'fn': 'h', 'src': src,
            'timeout': timeout,
            'bounds': ('WSGI BoundedStream%s; wsgi.input holds %d free bytes (any values), Content-Length any int >= 0%s '
                       '(shorter, exact or longer than the data), ops=%s with every size any int >= -1' % (
                           ' via falcon.Request.bounded_stream' if via else '', L, ' (<= %d)' % (L + 1) if via else '',
                           [W_OPS[o] for o in ops]))
            + (', symbolic short-read schedule for the first %d server reads' % shorts if shorts else '')}


def _mka(spec, lens, cl_kind, preload, ops, via=False, timeout=150):
    """cl_kind: 'none' | 'sym'"""
    L = sum(lens)
    cuts = []
    pos = 0
    for ln in lens:
        cuts.append('data[%d:%d]' % (pos, pos + ln))
        pos += ln
    nargs, npre, opsrc = '', '', []
    for i, o in enumerate(ops):
        if o == 0:
            nargs += ', n%d: int' % i
            npre += '    pre: n%d >= -1\n' % i
            opsrc.append('(%d, n%d)' % (o, i))
        else:
            opsrc.append('(%d, -1)' % o)
    clpre = ''
    if cl_kind == 'sym':
        clpre = '    pre: 0 <= cl%s\n' % (' <= %d' % (L + 2) if via else '')
    src = _A_T.format(L=L, clarg=', cl: int' if cl_kind == 'sym' else '', clpre=clpre,
                      nargs=nargs, npre=npre, chunks=', '.join(cuts), spec=spec, clv='cl' if cl_kind == 'sym' else 'None',
                      preload=bool(preload), ops=', '.join(opsrc) + ',', extra=', via_request=True' if via else '')
    name = 'asgi%s_%s_%s_cl%s_%s_%s' % ('_req' if via else '', spec, ''.join(map(str, lens)), cl_kind,
                                        'pre' if preload else 'nopre', '-'.join(A_OPS[o] for o in ops))
    return {'name': name, 'fn': 'h', 'src': src, 'timeout': timeout,
            'bounds': 'ASGI BoundedStream%s; event script %s (B=body+more_body, L=last, N=no more_body key, E=no body key, '
                      'D=disconnect) with body chunk lengths %s (free byte values), Content-Length %s, first event %s, '
                      'ops=%s with every size any int >= -1' % (
                          ' via falcon.asgi.Request.stream' if via else '', spec, lens,
                          'absent' if cl_kind == 'none' else 'any int >= 0', 'preloaded' if preload else 'not preloaded',
                          [A_OPS[o] for o in ops])}


def partitions(tier, seed):
    P = []
    wpairs_q = [(2, 1), (3, 1), (3, 0), (5, 1), (4, 1), (0, 2), (0, 0), (6, 1), (5, 5), (2, 5), (7, 0), (8, 1), (0, 3), (3, 3)]
    if tier == 'quick':
        for ops in wpairs_q:
            P.append(_mkw(ops, 4))
        P.append(_mkw((3, 0), 3, via=True))
        P.append(_mkw((5, 1), 3, via=True))
        P.append(_mkw((0, 0), 4, shorts=2))
        P.append(_mkw((0, 1), 4, shorts=2))
        P.append(_mkw((3, 0), 4, shorts=1))
        P.append(_mkw((6, 0), 4, shorts=2))
        a = [('BBL', (2, 1, 1), 'sym', 0, (0, 0)), ('BBL', (2, 1, 1), 'sym', 1, (0, 1)), ('BL', (3, 1), 'sym', 1, (0, 2)),
             ('BED', (2,), 'sym', 0, (0, 0)), ('BBD', (2, 2), 'sym', 0, (0, 3)), ('BN', (2, 2), 'sym', 1, (0, 0)),
             ('BBL', (1, 2, 1), 'none', 0, (0, 0)), ('BL', (2, 2), 'none', 1, (0, 3)), ('BBL', (2, 0, 2), 'sym', 0, (0, 4)),
             ('BL', (2, 2), 'sym', 0, (3, 0)), ('BL', (2, 2), 'sym', 1, (0, 5, 0)), ('BB', (2, 2), 'sym', 0, (4, 0)),
             ('L', (4,), 'sym', 1, (0, 0)), ('BL', (1, 3), 'sym', 0, (2, 0))]
        for spec, lens, clk, pre, ops in a:
            P.append(_mka(spec, lens, clk, pre, ops))
        P.append(_mka('BL', (2, 1), 'sym', 1, (0, 1), via=True))
        P.append(_mka('BL', (2, 1), 'none', 0, (0, 0), via=True))
        return P
    # thorough
    wops = [0, 1, 2, 3, 4, 5, 6, 7, 8]
    for a_ in wops:
        for b_ in wops:
            P.append(_mkw((a_, b_), 4, timeout=400))
    for ops in wpairs_q:
        P.append(_mkw(ops + (0,), 4, timeout=600))
        P.append(_mkw(ops, 6, timeout=600))
        P.append(_mkw(ops, 3, via=True, timeout=400))
    specs = [('BBL', (2, 1, 1)), ('BBL', (1, 0, 2)), ('BL', (3, 1)), ('BED', (3,)), ('BBD', (2, 2)), ('BN', (2, 2)),
             ('EBL', (2, 2)), ('L', (4,)), ('N', (3,)), ('D', ()), ('BDB', (2, 2)), ('BB', (2, 2)), ('BLB', (2, 1, 1))]
    aops = [(0, 0), (0, 1), (0, 2), (0, 3), (0, 4), (0, 5, 0), (3, 0), (4, 0), (2, 0), (0, 0, 0), (1, 3)]
    for spec, lens in specs:
        for clk in ('sym', 'none'):
            for pre in (0, 1):
                for ops in aops:
                    P.append(_mka(spec, lens, clk, pre, ops, timeout=400))
    for spec, lens in specs[:6]:
        P.append(_mka(spec, lens, 'sym', 1, (0, 1), via=True, timeout=400))
        P.append(_mka(spec, lens, 'none', 0, (0, 3), via=True, timeout=400))
    return P
