"""C09 -- typed request-header accessors agree with the RFC reading or answer 400.

Real code: falcon.Request / falcon.asgi.Request derived properties (content_length, range,
entity tags, cookies, Forwarded, access route, host/port/netloc, URL composition ...).
A totality: one symbolic header value -> returns, or raises an HTTPError with a 4xx status; same on re-read.
B agreement: header values generated from the ABNF by shape with symbolic tokens vs an RFC-level reading.
"""
import engine.loader as _l
_l.install()

import falcon  # noqa: E402
import falcon.asgi  # noqa: E402
from falcon.response import Response, ResponseOptions  # noqa: E402

from engine.envmodels import make_environ, make_scope  # noqa: E402
from engine.rt import fail, pick  # noqa: E402
from engine.driver import known_findings as _kf  # noqa: E402

LISTED = set(_kf()[0].get('C09', {}))

PROPERTY = 'C09'
UNITS = ['falcon.request.Request typed header properties', 'falcon.asgi.request.Request typed header properties',
         'falcon.request_helpers._parse_etags/_parse_cookie_header', 'falcon.forwarded._parse_forwarded_header',
         'falcon.util.uri.parse_host/unquote_string', 'falcon.util.structures.ETag']
STUBS = [
    'requests are built by the harness environ/scope builders (latin-1 header values, as a server delivers them)',
    'cookie names come from a menu (they become dict keys); HTTP-date values come from a menu (strptime is C code)',
    'header values in the totality obligation are bounded to 3 characters (4 for Forwarded/Host/Cookie shapes)',
]
OUTSIDE = ['HTTP-date parsing for arbitrary strings', 'header values longer than the bounds', 'numeric headers with more than 3 digits']
BUDGET = {'quick': 280, 'thorough': 900}


def mkreq(asgi, headers, path='/p', query='', scheme='http', host='example.org', port=80, root=''):
    if asgi:
        return falcon.asgi.Request(make_scope(path=path, query=query.encode('latin-1'), headers=headers, scheme=scheme, host=host,
                                              port=port, root_path=root), None)
    return falcon.Request(make_environ(path=path, query=query, headers=headers, scheme=scheme, host=host, port=port, script_name=root))


# literal attribute access only (CrossHair's patched getattr() cannot run properties)
GROUPS = {
    'content_length': ('Content-Length', [lambda r: r.content_length]),
    'range': ('Range', [lambda r: r.range, lambda r: r.range_unit]),
    'if_match': ('If-Match', [lambda r: r.if_match]),
    'if_none_match': ('If-None-Match', [lambda r: r.if_none_match]),
    'if_range': ('If-Range', [lambda r: r.if_range]),
    'cookie': ('Cookie', [lambda r: r.cookies, lambda r: r.get_cookie_values('a')]),
    'forwarded': ('Forwarded', [lambda r: [(f.src, f.dest, f.host, f.scheme) for f in (r.forwarded or [])], lambda r: r.access_route,
                                lambda r: r.forwarded_scheme, lambda r: r.forwarded_host, lambda r: r.forwarded_uri,
                                lambda r: r.forwarded_prefix]),
    'x_forwarded_for': ('X-Forwarded-For', [lambda r: r.access_route]),
    'x_forwarded_host': ('X-Forwarded-Host', [lambda r: r.forwarded_host, lambda r: r.forwarded_uri]),
    'x_forwarded_proto': ('X-Forwarded-Proto', [lambda r: r.forwarded_scheme, lambda r: r.forwarded_prefix]),
    'host': ('Host', [lambda r: r.host, lambda r: r.port, lambda r: r.netloc, lambda r: r.uri, lambda r: r.prefix, lambda r: r.subdomain,
                      lambda r: r.forwarded_host]),
    'content_type': ('Content-Type', [lambda r: r.content_type]),
    'expect': ('Expect', [lambda r: r.expect]),
    'accept': ('Accept', [lambda r: r.accept, lambda r: r.client_accepts_json, lambda r: r.client_accepts('text/plain'),
                          lambda r: r.client_prefers(['text/plain', 'application/json'])]),
    'date': ('Date', [lambda r: r.date]),
    'if_modified_since': ('If-Modified-Since', [lambda r: r.if_modified_since]),
}


def _canon(v):
    if isinstance(v, list):
        return [_canon(x) for x in v]
    if isinstance(v, falcon.ETag):
        return ('etag', str(v), v.is_weak)
    return v


def total_case(asgi, group, value, casing):
    """Every accessor of the group returns or raises a 4xx HTTPError -- the same on a second access."""
    for ch in value:
        if ord(ch) > 255:
            return 2
    name, readers = GROUPS[group]
    name = [name, name.lower(), name.upper()][casing]
    req = mkreq(asgi, [(name, value)])
    for rd in readers:
        out = []
        for _ in (0, 1):
            try:
                out.append(('ok', _canon(rd(req))))
            except falcon.HTTPError as e:
                if not (400 <= e.status_code <= 499):
                    return fail(lambda: '%s: %s=%r raised HTTPError %r' % (group, name, value, e.status))
                out.append(('err', e.status_code))
        if out[0] != out[1]:
            return fail(lambda: '%s: %s=%r first access %r, second access %r' % (group, name, value, out[0], out[1]))
    return 1


# ---------------------------------------------------------------- agreement on valid input
def _num(ds):
    v = 0
    for ch in ds:
        if not ('0' <= ch <= '9'):
            return None
        v = v * 10 + ord(ch) - 48
    return v if ds else None


def content_length_case(asgi, ds, lead_zero, casing):
    n = _num(ds)
    if n is None:
        return 2
    text = ('0' if lead_zero else '') + ds
    req = mkreq(asgi, [(['Content-Length', 'content-length', 'CONTENT-LENGTH'][casing], text)])
    got = req.content_length
    if got != n:
        return fail(lambda: 'Content-Length %r read as %r' % (text, got))
    return 1


def range_case(asgi, kind, fs, ls, unit_i):
    f, l = _num(fs), _num(ls)
    unit = ['bytes', 'items', 'BYTES'][unit_i]
    if kind == 0:
        if f is None or l is None:
            return 2
        text, exp = '%s=%s-%s' % (unit, fs, ls), ((f, l) if l >= f else 'bad')
    elif kind == 1:
        if f is None:
            return 2
        text, exp = '%s=%s-' % (unit, fs), (f, -1)
    else:
        if l is None:
            return 2
        text, exp = '%s=-%s' % (unit, ls), ((-l, -1) if l > 0 else 'bad')
    req = mkreq(asgi, [('Range', text)])
    if req.range_unit != unit:
        return fail(lambda: 'range_unit of %r = %r' % (text, req.range_unit))
    try:
        got = req.range
    except falcon.HTTPInvalidHeader:
        got = 'bad'
    if got != exp:
        return fail(lambda: 'Range %r read as %r, RFC 9110 reading %r' % (text, got, exp))
    return 1


def _tagchars_ok(s):
    for ch in s:
        o = ord(ch)
        if not (o == 0x21 or 0x23 <= o <= 0x7e or 0x80 <= o <= 0xff):
            return False
    return True


def etag_case(asgi, which, t1, w1, t2, w2, two, star):
    """entity-tag lists: 1-2 tags with opaque characters symbolic, weak flags symbolic; or '*'."""
    if not _tagchars_ok(t1) or not _tagchars_ok(t2):
        return 2
    hdr = ['If-Match', 'If-None-Match'][which]
    if star:
        text, exp = '*', ['*']
    else:
        text = ('W/' if w1 else '') + '"' + t1 + '"'
        exp = [(t1, w1)]
        if two:
            text += ', ' + ('W/' if w2 else '') + '"' + t2 + '"'
            exp.append((t2, w2))
    req = mkreq(asgi, [(hdr, text)])
    got = req.if_match if which == 0 else req.if_none_match
    if star:
        if got != ['*']:
            return fail(lambda: '%s: * read as %r' % (hdr, got))
        return 1
    norm = [(str(e), e.is_weak) for e in (got or [])]
    if norm != exp:
        return fail(lambda: '%s: %r read as %r, expected %r' % (hdr, text, norm, exp))
    return 1


def etag_roundtrip_case(asgi, tag, weak):
    """resp.etag = s read back by the request API."""
    if not _tagchars_ok(tag) or not tag:
        return 2
    resp = Response(options=ResponseOptions())
    resp.etag = ('W/"' + tag + '"') if weak else tag
    wire = resp.get_header('ETag')
    req = mkreq(asgi, [('If-None-Match', wire)])
    got = req.if_none_match
    if not got or len(got) != 1 or str(got[0]) != tag or got[0].is_weak != weak:
        return fail(lambda: 'resp.etag=%r emitted as %r read back as %r' % (tag, wire, got))
    return 1


COOKIE_NAMES = ['a', 'b', 'a', 'sid', 'x-y', '$v']


def cookie_case(asgi, n1, v1, n2, v2, two, quoted):
    for ch in v1 + v2:
        o = ord(ch)
        if not (o == 0x21 or 0x23 <= o <= 0x2b or 0x2d <= o <= 0x3a or 0x3c <= o <= 0x5b or 0x5d <= o <= 0x7e):
            return 2  # cookie-octet
    a, b = COOKIE_NAMES[n1], COOKIE_NAMES[n2]
    text = a + '=' + (('"' + v1 + '"') if quoted else v1)
    pairs = [(a, v1)]
    if two:
        text += '; ' + b + '=' + v2
        pairs.append((b, v2))
    req = mkreq(asgi, [('Cookie', text)])
    for name in set(p[0] for p in pairs):
        want = [v for k, v in pairs if k == name]
        got = req.get_cookie_values(name)
        if got != want:
            return fail(lambda: 'Cookie %r: get_cookie_values(%r) = %r, expected %r' % (text, name, got, want))
        if req.cookies.get(name) != want[0]:
            return fail(lambda: 'Cookie %r: cookies[%r] = %r, first value %r' % (text, name, req.cookies.get(name), want[0]))
    if req.get_cookie_values('zz') is not None:
        return fail('unknown cookie reported')
    return 1


def _token_ok(s):
    if not s:
        return False
    for ch in s:
        o = ord(ch)
        if not (0x30 <= o <= 0x39 or 0x41 <= o <= 0x5a or 0x61 <= o <= 0x7a or ch in "!#$%&'*+-.^_`|~"):
            return False
    return True


def forwarded_case(asgi, shape, a, b, c, d, host_port):
    """RFC 7239 elements with symbolic tokens."""
    for t in (a, b, c, d):
        if not _token_ok(t):
            return 2
    own_host = 'example.org:8080' if host_port else 'example.org'
    if shape == 0:
        text = 'for=%s;proto=%s;host=%s, for=%s' % (a, b, c, d)
        exp = [(a, None, c, b.lower()), (d, None, None, None)]
    elif shape == 1:
        text = 'for=%s;by=%s' % (a, b)
        exp = [(a, b, None, None)]
    elif shape == 2:
        text = 'For="[2001:db8::%s]:%s", for=%s' % ('1', '80', a)
        exp = [('[2001:db8::1]:80', None, None, None), (a, None, None, None)]
    elif shape == 3:
        text = 'for=_%s;PROTO=%s , for="%s"' % (a, b, c)
        exp = [('_' + a, None, None, b.lower()), (c, None, None, None)]
    elif shape == 5:
        # quoted-string values with quoted-pairs, one ending in an escaped double quote
        text = 'for="%s\\"";proto=%s, for="\\%s%s"' % (a, b, c, d)
        exp = [(a + '"', None, None, b.lower()), (c + d, None, None, None)]
    else:
        text = 'host=%s; for=%s' % (a, b)
        exp = [(None, None, a, None), ] if False else [(b, None, a, None)]
    req = mkreq(asgi, [('Forwarded', text), ('Host', own_host)], port=8080 if host_port else 80)
    got = [(f.src, f.dest, f.host, f.scheme) for f in (req.forwarded or [])]
    if got != exp:
        return fail(lambda: 'Forwarded %r parsed as %r, RFC 7239 reading %r' % (text, got, exp))
    # derived attributes
    first = exp[0]
    want_host = first[2] or own_host
    want_scheme = first[3] or 'http'
    if req.forwarded_host != want_host:
        return fail(lambda: 'Forwarded %r, Host %r: forwarded_host = %r, expected %r' % (text, own_host, req.forwarded_host, want_host))
    if req.forwarded_scheme != want_scheme:
        return fail(lambda: 'forwarded_scheme = %r, expected %r' % (req.forwarded_scheme, want_scheme))
    if req.forwarded_uri != want_scheme + '://' + want_host + '/p':
        return fail(lambda: 'forwarded_uri = %r' % (req.forwarded_uri,))
    if req.forwarded_prefix != want_scheme + '://' + want_host:
        return fail(lambda: 'forwarded_prefix = %r' % (req.forwarded_prefix,))
    route = []
    for e in exp:
        if e[0] is not None:
            src = e[0]
            if src.startswith('['):
                src = src[1:src.index(']')]
            route.append(src)
    if not route or route[-1] != '127.0.0.1':
        route.append('127.0.0.1')
    if req.access_route != route:
        return fail(lambda: 'Forwarded %r: access_route = %r, expected %r' % (text, req.access_route, route))
    return 1


def xff_case(asgi, a, b, proto_i, xhost):
    for t in (a, b, xhost):
        if not _token_ok(t):
            return 2
    proto = ['https', 'HTTP', 'wss'][proto_i]
    req = mkreq(asgi, [('X-Forwarded-For', a + ', ' + b), ('X-Forwarded-Proto', proto), ('X-Forwarded-Host', xhost)])
    if req.access_route != [a, b, '127.0.0.1']:
        return fail(lambda: 'X-Forwarded-For: access_route = %r' % (req.access_route,))
    if req.forwarded_scheme != proto.lower() or req.forwarded_host != xhost:
        return fail(lambda: 'X-Forwarded-Proto/Host read as %r / %r' % (req.forwarded_scheme, req.forwarded_host))
    if req.forwarded_uri != proto.lower() + '://' + xhost + '/p':
        return fail(lambda: 'forwarded_uri = %r' % (req.forwarded_uri,))
    return 1


def host_case(asgi, form, name, pd, https, path, query):
    for ch in name:
        o = ord(ch)
        if not (0x30 <= o <= 0x39 or 0x61 <= o <= 0x7a or ch in '-.'):
            return 2
    if not name or name[0] == '.':
        return 2
    port = _num(pd)
    for ch in path + query:
        o = ord(ch)
        if not (0x30 <= o <= 0x39 or 0x61 <= o <= 0x7a or ch in '-._~'):
            return 2
    scheme = 'https' if https else 'http'
    default = 443 if https else 80
    if form == 0:
        text, eh, ep = name, name, default
    elif form == 1:
        if port is None:
            return 2
        text, eh, ep = name + ':' + pd, name, port
    elif form == 2:
        text, eh, ep = '[::' + name + ']', '::' + name, default
    else:
        if port is None:
            return 2
        text, eh, ep = '[::' + name + ']:' + pd, '::' + name, port
    req = mkreq(asgi, [('Host', text)], path='/' + path, query=query, scheme=scheme, port=default)
    if req.host != eh or req.port != ep or req.netloc != text:
        return fail(lambda: 'Host %r: host/port/netloc = %r/%r/%r, RFC 3986 reading %r/%r' % (text, req.host, req.port, req.netloc, eh, ep))
    rel = '/' + path + ('?' + query if query else '')
    if req.relative_uri != rel:
        return fail(lambda: 'relative_uri=%r, expected %r' % (req.relative_uri, rel))
    if req.uri != scheme + '://' + text + rel:
        return fail(lambda: 'uri=%r, expected %r' % (req.uri, scheme + '://' + text + rel))
    if req.url != req.uri:
        return fail('url is not uri')
    if req.prefix != scheme + '://' + text:
        return fail(lambda: 'prefix=%r' % (req.prefix,))
    sub = eh.partition('.')
    want_sub = sub[0] if sub[1] else None
    if req.subdomain != want_sub:
        return fail(lambda: 'subdomain of %r = %r' % (eh, req.subdomain))
    if req.forwarded_host != text or req.forwarded_uri != req.uri:
        return fail(lambda: 'no forwarding headers: forwarded_host/uri = %r / %r' % (req.forwarded_host, req.forwarded_uri))
    return 1


def ws_host_case(secure, with_port, name, pd):
    """ASGI WebSocket handshake requests carry the schemes ws / wss: default ports 80 / 443."""
    for ch in name:
        o = ord(ch)
        if not (0x30 <= o <= 0x39 or 0x61 <= o <= 0x7a or ch in '-.'):
            return 2
    if not name or name[0] == '.':
        return 2
    port = _num(pd)
    scheme = 'wss' if secure else 'ws'
    default = 443 if secure else 80
    if with_port:
        if port is None:
            return 2
        text, ep = name + ':' + pd, port
    else:
        text, ep = name, default
    scope = make_scope(path='/chat', headers=[('Host', text)], scheme=scheme, host='srv', port=default, extra={'type': 'websocket'})
    req = falcon.asgi.Request(scope, None)
    if req.host != name or req.port != ep or req.netloc != text or req.scheme != scheme:
        return fail(lambda: '%s handshake, Host %r: host/port/netloc/scheme = %r/%r/%r/%r, expected %r/%r' % (
            scheme, text, req.host, req.port, req.netloc, req.scheme, name, ep))
    if req.uri != scheme + '://' + text + '/chat':
        return fail(lambda: 'uri = %r' % (req.uri,))
    return 1


DATES = ['Sun, 06 Nov 1994 08:49:37 GMT', 'Sunday, 06-Nov-94 08:49:37 GMT', 'Sun Nov  6 08:49:37 1994', 'Thu, 01 Jan 1970 00:00:00 GMT',
         'Fri, 31 Dec 9999 23:59:59 GMT']


def date_case(asgi, di, hi, casing):
    import datetime
    hdr = ['Date', 'If-Modified-Since', 'If-Unmodified-Since'][hi]
    name = [hdr, hdr.lower(), hdr.upper()][casing]
    req = mkreq(asgi, [(name, DATES[di])])
    try:
        got = req.date if hi == 0 else (req.if_modified_since if hi == 1 else req.if_unmodified_since)
    except falcon.HTTPInvalidHeader:
        if di in (1, 2) and 'obs-date-400' in LISTED:
            return 2   # known finding: the obsolete (but valid) HTTP-date formats are answered with a 400
        raise
    exp = [datetime.datetime(1994, 11, 6, 8, 49, 37), datetime.datetime(1994, 11, 6, 8, 49, 37), datetime.datetime(1994, 11, 6, 8, 49, 37),
           datetime.datetime(1970, 1, 1), datetime.datetime(9999, 12, 31, 23, 59, 59)][di]
    if got is None or got.replace(tzinfo=None) != exp:
        return fail(lambda: '%s %r read as %r' % (hdr, DATES[di], got))
    # response -> request round trip
    resp = Response(options=ResponseOptions())
    resp.last_modified = got
    req2 = mkreq(asgi, [('If-Modified-Since', resp.get_header('Last-Modified'))])
    if req2.if_modified_since != got:
        return fail(lambda: 'last_modified %r emitted as %r read back as %r' % (got, resp.get_header('Last-Modified'), req2.if_modified_since))
    return 1


def _known_obs_date():
    out = []
    for asgi in (0, 1):
        for di in (1, 2):
            try:
                mkreq(asgi, [('If-Modified-Since', DATES[di])]).if_modified_since
                out.append(False)
            except falcon.HTTPInvalidHeader:
                out.append(True)
    return all(out), ('If-Modified-Since / Date / If-Unmodified-Since in the obsolete RFC 850 or asctime format (valid HTTP-dates, '
                      'RFC 9110 5.6.7) raise HTTPInvalidHeader (400) on WSGI and ASGI, e.g. %r' % DATES[2])


KNOWN = {'obs-date-400': _known_obs_date}


# ---------------------------------------------------------------- partitions
def _part(name, args, pre, call, timeout, bounds):
    src = '''
def h(%s) -> int:
    """
%s    post: _ != 0
    """
    return %s
''' % (args, ''.join('    pre: %s\n' % p for p in pre), call)
    return {'name': name, 'fn': 'h', 'src': src, 'timeout': timeout, 'bounds': bounds}


def partitions(tier, seed):
    P = []
    q = tier == 'quick'
    # A: totality.  Cheap groups get 3 free characters; parser-heavy ones are split by the class of the first character.
    heavy = {'range', 'content_length', 'if_match', 'if_none_match', 'if_range', 'cookie', 'accept', 'date', 'if_modified_since'}
    for asgi in (0, 1):
        tag = 'asgi' if asgi else 'wsgi'
        for gi, g in enumerate(GROUPS):
            if q and (gi + asgi) % 2:
                continue   # quick: each accessor group on one interface (alternating); thorough: both
            if g in ('date', 'if_modified_since', 'accept'):
                # strptime / frozenset lookups realize the text: tiny alphabet instead of free characters
                alpha = "'S, 0:G/*;q=.a'"
                P.append(_part('total_%s_%s' % (g, tag), 'v: str, casing: int', ['len(v) <= 2', 'all(c in %s for c in v)' % alpha, '0 <= casing <= 2'],
                               'total_case(%d, %r, v, casing)' % (asgi, g), 150 if q else 600,
                               'totality of %s accessors (%s): header value <= 2 characters over %s, name casing symbolic' % (g, tag, alpha)))
                continue
            L = 2 if (q and g in heavy) else 3
            if not q and g in heavy:
                L = 3
            P.append(_part('total_%s_%s' % (g, tag), 'v: str, casing: int', ['len(v) <= %d' % L, '0 <= casing <= 2'],
                           'total_case(%d, %r, v, casing)' % (asgi, g), 200 if q else 900,
                           'totality of the %s accessors (%s): ANY latin-1 header value of <= %d characters, header-name casing symbolic; '
                           'returns or 4xx HTTPError, same on re-read' % (g, tag, L)))
        # B: agreement (quick: each obligation on one interface, alternating; smaller token sizes)
        B = []
        n1 = 1 if q else 2
        B.append(_part('content_length_%s' % tag, 'ds: str, lead_zero: bool, casing: int', ['1 <= len(ds) <= %d' % (2 if q else 3), '0 <= casing <= 2'],
                       'content_length_case(%d, ds, lead_zero, casing)' % asgi, 200, 'Content-Length of free digits (+ leading zero) = its value'))
        for kind in range(3):
            B.append(_part('range_%s_kind%d' % (tag, kind), 'fs: str, ls: str, unit_i: int',
                           ['len(fs) <= %d and len(ls) <= %d' % (n1, n1), '0 <= unit_i <= 2'], 'range_case(%d, %d, fs, ls, unit_i)' % (asgi, kind), 200,
                           'Range %s with offsets of <= %d free digits, unit from a menu, vs RFC 9110' % (['F-L', 'F-', '-S'][kind], n1)))
        B.append(_part('etag_%s' % tag, 'which: int, t1: str, w1: bool, t2: str, w2: bool, two: bool, star: bool',
                       ['0 <= which <= 1', 'len(t1) <= %d and len(t2) <= 1' % n1], 'etag_case(%d, which, t1, w1, t2, w2, two, star)' % asgi, 250,
                       'If-Match / If-None-Match with 1-2 entity tags (opaque characters free within etagc, weak flags symbolic) or *'))
        B.append(_part('etag_roundtrip_%s' % tag, 'tag: str, weak: bool', ['1 <= len(tag) <= %d' % n1], 'etag_roundtrip_case(%d, tag, weak)' % asgi, 150,
                       'resp.etag -> ETag header -> req.if_none_match round trip'))
        B.append(_part('cookie_%s' % tag, 'n1: int, v1: str, n2: int, v2: str, two: bool, quoted: bool',
                       ['0 <= n1 < 6 and 0 <= n2 < 6', 'len(v1) <= %d and len(v2) <= 1' % n1],
                       'cookie_case(%d, n1, v1, n2, v2, two, quoted)' % asgi, 250,
                       'Cookie strings of 1-2 pairs: names from a menu incl. duplicates, values of free cookie-octets, optionally quoted'))
        B.append(_part('forwarded_%s_quotedpair' % tag, 'ia: int, ib: int, ic: int, host_port: bool',
                       ['0 <= ia <= 2 and 0 <= ib <= 1 and 0 <= ic <= 2'],
                       "forwarded_case(%d, 5, ('a', '_x', '1.2')[pick(ia, 0, 2)], ('http', 'HTTPS')[pick(ib, 0, 1)], ('c', '', '[')[pick(ic, 0, 2)], 'd', "
                       "bool(pick(int(host_port), 0, 1)))" % asgi, 100,
                       'Forwarded elements whose values are quoted-strings with quoted-pairs (one ending in an escaped double quote): tokens '
                       'from small menus (finite table chosen by the solver; the regex over symbolic quoted strings does not complete a path)'))
        for shape in range(5):
            B.append(_part('forwarded_%s_shape%d' % (tag, shape), 'a: str, b: str, c: str, d: str, host_port: bool',
                           (['len(a) == 1 and len(b) == 1 and len(c) == 1 and len(d) == 1'] if q else ['len(a) <= 2 and len(b) <= 1 and len(c) <= 1 and len(d) <= 1']) +
                           [],
                           'forwarded_case(%d, %d, a, b, c, d, host_port)' % (asgi, shape), 250,
                           'Forwarded header shape #%d with symbolic tokens: elements, forwarded_host/scheme/uri/prefix (fallback to the Host '
                           'field incl. an explicit port), access_route' % shape))
        B.append(_part('xff_%s' % tag, 'a: str, b: str, proto_i: int, xhost: str', ['len(a) <= %d and len(b) <= 1 and len(xhost) <= %d' % (n1, n1), '0 <= proto_i <= 2'],
                       'xff_case(%d, a, b, proto_i, xhost)' % asgi, 200, 'X-Forwarded-For/-Proto/-Host with symbolic tokens'))
        for form in range(4):
            B.append(_part('host_%s_form%d' % (tag, form), 'name: str, pd: str, https: bool, path: str, query: str',
                           ['1 <= len(name) <= %d' % (2 if q else 3), 'len(pd) <= %d' % n1, 'len(path) <= 1 and len(query) <= 1'],
                           'host_case(%d, %d, name, pd, https, path, query)' % (asgi, form), 250,
                           'Host authority form %s: host/port/netloc/subdomain, uri/url/prefix/relative_uri composition' % ['name', 'name:port', '[v6]', '[v6]:port'][form]))
        B.append(_part('dates_%s' % tag, 'di: int, hi: int, casing: int', ['0 <= di < %d' % len(DATES), '0 <= hi <= 2', '0 <= casing <= 2'],
                       'date_case(%d, di, hi, casing)' % asgi, 200, 'HTTP-dates from a menu (3 RFC formats, epoch, year 9999) x 3 headers x name casing; '
                       'Last-Modified round trip'))
        if asgi:
            P.append(_part('ws_host', 'secure: bool, with_port: bool, name: str, pd: str', ['1 <= len(name) <= 2', 'len(pd) <= 2'],
                           'ws_host_case(secure, with_port, name, pd)', 150, 'ASGI WebSocket handshake request (scheme ws/wss): host/port (default 80/443)/netloc/uri'))
        for bi, part in enumerate(B):
            if q and (bi + asgi) % 2:
                continue
            P.append(part)
    return P
