"""C19 -- concurrent requests do not influence one another, from the very first request.

(A) ASGI tasks: 2-3 requests run as tasks of one falcon.asgi.App on the deterministic MiniLoop; every receive/send await is
    a gate and the order in which gates open is symbolic (one boolean per decision).  Each response must equal the response
    of the same request processed alone.
(B) Threads in the router: the lazy-compile path of CompiledRouter is SEQUENTIALIZED from its current source (engine/seq.py):
    2-3 first-ever find() calls race on a freshly built router whose routes carry different converter instances; the
    pre-emption positions are solver-chosen integers.  Every thread's result must equal the serial result; no exception.
(C) Frozen shared state: after a warm-up request has compiled the router, processing ANY further request (menu of routes,
    request / response content types incl. fuzzy matches, Accept headers, errors, 404) on WSGI and ASGI must leave every
    shared mutable structure of the app untouched -- router tables, both Handlers mappings, option objects, middleware,
    error-handler, sink and static-route tables.  What no request writes, no interleaving of requests can corrupt.
"""
import engine.loader as _l
_l.install()

import collections  # noqa: E402

import falcon  # noqa: E402
import falcon.asgi  # noqa: E402
import falcon.routing.compiled as C  # noqa: E402

from engine import seq  # noqa: E402
from engine.envmodels import MiniLoop, asgi_call, make_environ, make_scope, running_loop, wsgi_call  # noqa: E402
from engine.rt import fail, notrace, pick  # noqa: E402

PROPERTY = 'C19'
UNITS = ['falcon.asgi.app.App.__call__ (interleaved at every receive/send await)', 'falcon.asgi.request.Request', 'falcon.asgi.response.Response',
         'falcon.routing.compiled.CompiledRouter.find/_compile_and_find/_compile/_generate_ast/_generate_conversion_ast (sequentialized)']
STUBS = [
    '(C) a sufficient condition, checked on one request at a time: structures that request processing never writes cannot be raced on; '
    'a future change that mutates one of them under a lock would need a model like (B) instead (memo caches such as functools.lru_cache '
    'are not part of the snapshot)',
    '(A) event loop = MiniLoop; the server is the harness: every receive()/send() parks on a gate future the schedule opens',
    '(B) threads = generators produced by the AST sequentializer from the CURRENT source; pre-emption before every statement of the '
    'five methods; `with self._compile_lock` -> model lock; calls into other code (node constructors, regex compile, exec) are atomic; '
    'schedules are chosen by the solver (exhaustive pick) and executed concretely outside tracing',
]
OUTSIDE = ['real OS-thread interleavings at bytecode granularity across the whole App.__call__ (the engine is single-threaded; sub-statement '
           'races are below the sequentializer\'s granularity)', 'C-level lru_cache internals and the get_header name cache under threads',
           'more than 3 concurrent requests / 2 pre-emptions']
BUDGET = {'quick': 300, 'thorough': 900}


# ---------------------------------------------------------------- (A) ASGI tasks
class _MW:
    async def process_request(self, req, resp):
        req.context.tag = req.path
        req.params['tenant'] = req.get_header('X-Tenant') or 'none'     # application code may write into req.params

    async def process_response(self, req, resp, resource, ok):
        resp.set_header('X-Tag', req.context.tag)


class _Item:
    async def on_post(self, req, resp, n):
        body = await req.get_media()
        resp.media = {'n': n, 'echo': body, 'q': req.get_param('q'), 'tenant': req.get_param('tenant')}
        resp.set_cookie('c', str(n))


class _Plain:
    async def on_post(self, req, resp):
        data = await req.stream.read()
        resp.text = 'plain:%s:%s' % (req.get_param('tenant'), data.decode())


class _Boom:
    async def on_post(self, req, resp):
        await req.stream.read()
        raise falcon.HTTPConflict(title='boom', description=req.get_param('tenant'))


_APP = []


def _app():
    if not _APP:
        with notrace():
            app = falcon.asgi.App(middleware=[_MW()])
            app.add_route('/item/{n:int}', _Item())
            app.add_route('/plain', _Plain())
            app.add_route('/boom', _Boom())
            _APP.append(app)
    return _APP[0]


REQS = [('/item/7', b'q=a', b'{"v": 1}', 'acme'), ('/item/42', b'', b'[2]', 'globex'), ('/plain', b'', b'hello', 'initech'),
        ('/boom', b'', b'x', 'umbrella'), ('/nope', b'', b'', 'none'), ('/plain', b'x=1', b'zz', 'hooli')]


def run_concurrent(picks, choices):
    app = _app()
    loop = MiniLoop()
    outs = []
    with running_loop(loop):
        gates = []    # (task index, future)
        tasks = []
        for ti, idx in enumerate(picks):
            path, qs, body, tenant = REQS[idx]
            sent = []
            outs.append(sent)
            half = len(body) // 2
            chunks = collections.deque([{'type': 'http.request', 'body': body[:half], 'more_body': True},
                                        {'type': 'http.request', 'body': body[half:], 'more_body': False}])

            async def receive(chunks=chunks, ti=ti):
                f = loop.create_future()
                gates.append((ti, f))
                await f
                return chunks.popleft() if chunks else {'type': 'http.disconnect'}

            async def send(ev, sent=sent, ti=ti):
                f = loop.create_future()
                gates.append((ti, f))
                await f
                sent.append(ev)
            scope = {'type': 'http', 'asgi': {'version': '3.0', 'spec_version': '2.1'}, 'http_version': '1.1', 'method': 'POST',
                     'scheme': 'http', 'path': path, 'raw_path': path.encode(), 'query_string': qs, 'root_path': '',
                     'headers': [(b'host', b'x'), (b'content-type', b'application/json'), (b'content-length', str(len(body)).encode()),
                                 (b'x-tenant', tenant.encode())],
                     'client': ('1.1.1.1', 1), 'server': ('x', 80)}
            tasks.append(loop.create_task(app(scope, receive, send)))
        ci = 0
        guard = 0
        while not all(t.done() for t in tasks):
            guard += 1
            if guard > 5000:
                return None
            if loop._ready:
                loop.run_one()
                continue
            if not gates:
                return None
            # the environment decides which parked task continues: a symbolic choice whenever more than one is parked
            k = 0
            if len(gates) > 1:
                c = choices[ci] if ci < len(choices) else False
                ci += 1
                k = 1 if c else 0
                if len(gates) > 2 and c:
                    c2 = choices[ci] if ci < len(choices) else False
                    ci += 1
                    k = 2 if c2 else 1
            ti, f = gates.pop(k)
            f.set_result(None)
        for t in tasks:
            t.result()
    return [_norm(s) for s in outs]


def _norm(sent):
    status = None
    headers = None
    body = b''
    for ev in sent:
        if ev['type'] == 'http.response.start':
            status = ev['status']
            headers = sorted(ev['headers'])
        elif ev['type'] == 'http.response.body':
            body += ev.get('body', b'')
    return status, headers, body


_SERIAL = {}


def _serial(idx):
    if idx not in _SERIAL:
        with notrace():
            _SERIAL[idx] = run_concurrent([idx], [])[0]
    return _SERIAL[idx]


def concurrent_case(picks, choices):
    base = [_serial(i) for i in picks]
    got = run_concurrent(picks, choices)
    if got is None:
        return fail(lambda: 'requests %r under schedule %r: deadlock / livelock' % (picks, choices))
    if got != base:
        return fail(lambda: 'requests %r under schedule %r:\n  concurrent %r\n  alone      %r' % ([REQS[i][0] for i in picks], choices, got, base))
    return 1


# ---------------------------------------------------------------- (C) frozen shared state
CT_MENU = [None, 'application/json', 'application/json; charset=utf-8', 'APPLICATION/JSON', 'application/x-www-form-urlencoded',
           'application/x-www-form-urlencoded; charset=utf-8', 'text/plain', 'application/*']
ACCEPT_MENU = [None, '*/*', 'application/xml', 'text/html;q=0.5, application/json', 'application/json; charset=utf-8', 'bogus']
FBOX = {}


def _frozen_responder(req, resp, media):
    kind = FBOX['kind']
    if kind == 1:
        raise falcon.HTTPConflict(title='t', description='d')
    if kind == 2:
        raise KeyError('unhandled')
    if FBOX['rct'] is not None:
        resp.content_type = FBOX['rct']
    resp.media = {'echo': media, 'pref': req.client_prefers(['application/json', 'text/html'])}


class _FrozenSync:
    def on_post(self, req, resp, n):
        _frozen_responder(req, resp, req.get_media(default_when_empty=None) if FBOX['read'] else None)


class _FrozenAsync:
    async def on_post(self, req, resp, n):
        _frozen_responder(req, resp, (await req.get_media(default_when_empty=None)) if FBOX['read'] else None)


_FAPPS = {}


def _frozen_app(asgi):
    if asgi not in _FAPPS:
        with notrace():
            app = (falcon.asgi.App if asgi else falcon.App)()
            app.add_route('/f/{n:int}', _FrozenAsync() if asgi else _FrozenSync())
            app.add_route('/other', _Plain() if asgi else _FrozenSync())

            async def asink(req, resp, **kw):
                resp.media = {'sink': True}

            def sink(req, resp, **kw):
                resp.media = {'sink': True}
            app.add_sink(asink if asgi else sink, '/sink')
            # warm-up: the first request compiles the router (the one legitimate, lock-protected mutation: family (B))
            if asgi:
                asgi_call(app, make_scope(path='/warmup'))
            else:
                wsgi_call(app, make_environ(path='/warmup'))
            _FAPPS[asgi] = app
    return _FAPPS[asgi]


def _opt_snapshot(o):
    names = getattr(type(o), '__slots__', None) or sorted(vars(o))
    out = []
    for k in names:
        v = getattr(o, k, None)
        if hasattr(v, 'data') and isinstance(getattr(v, 'data'), dict):
            out.append((k, 'handlers', id(v), tuple((hk, id(hv)) for hk, hv in v.data.items())))
        elif isinstance(v, (bool, int, str, type(None), tuple, frozenset)):
            out.append((k, repr(v)))
        elif isinstance(v, (list, dict, set)):
            out.append((k, type(v).__name__, repr(sorted(map(repr, v)))))
        else:
            out.append((k, 'obj', id(v), _opt_snapshot(v) if hasattr(type(v), '__slots__') else None))
    return tuple(out)


def _tree(nodes):
    return tuple((n.raw_segment, id(n.resource), n.uri_template, _tree(n.children)) for n in nodes)


def shared_snapshot(app):
    r = app._router
    return {
        'router finder': id(r._find), 'router return values': tuple(id(x) for x in r._return_values),
        'router patterns': tuple(p.pattern for p in r._patterns), 'router converters': tuple(id(c) for c in r._converters),
        'router tree': _tree(r._roots),
        'req_options': _opt_snapshot(app.req_options), 'resp_options': _opt_snapshot(app.resp_options),
        'middleware': repr(app._middleware), 'error handlers': tuple((repr(k), id(v)) for k, v in app._error_handlers.items()),
        'sinks': tuple(tuple(id(y) for y in x) for x in app._sinks),
        'static routes': tuple(tuple(id(y) for y in x) for x in app._static_routes),
        'sink/static order': tuple(tuple(id(y) for y in x) for x in app._sink_and_static_routes),
    }


def frozen_case(asgi, path_i, kind, read, ct_i, rct_i, acc_i, body_i):
    app = _frozen_app(asgi)
    FBOX.update(kind=kind, read=read, rct=CT_MENU[rct_i])
    path = ['/f/7', '/f/x', '/nope', '/sink/a', '/other'][path_i]
    body = [b'', b'{"a": 1}', b'a=1&b=2', b'{'][body_i]
    headers = []
    if CT_MENU[ct_i] is not None:
        headers.append(('Content-Type', CT_MENU[ct_i]))
    if ACCEPT_MENU[acc_i] is not None:
        headers.append(('Accept', ACCEPT_MENU[acc_i]))
    with notrace():
        before = shared_snapshot(app)
        try:
            if asgi:
                hs = headers + [('Content-Length', str(len(body)))]
                asgi_call(app, make_scope(method='POST', path=path, headers=hs),
                          [{'type': 'http.request', 'body': body, 'more_body': False}])
            else:
                wsgi_call(app, make_environ(method='POST', path=path, headers=headers, body=body))
        except KeyError:
            pass    # kind 2 on WSGI: unhandled exceptions propagate to the server by design
        after = shared_snapshot(app)
    if before != after:
        changed = [k for k in before if before[k] != after[k]]
        return fail(lambda: 'processing POST %s (%s, request content type %r, response content type %r, Accept %r, body %r, responder kind %d) '
                    'changed the app\'s shared state: %s\n  before %r\n  after  %r' % (
                        path, 'ASGI' if asgi else 'WSGI', CT_MENU[ct_i], CT_MENU[rct_i], ACCEPT_MENU[acc_i], body, kind, changed,
                        {k: before[k] for k in changed}, {k: after[k] for k in changed}))
    return 1


# ---------------------------------------------------------------- (B) threads in the router
class _R:
    def on_get(self, req, resp, **kw):
        pass


ROUTES = [('/a/{n:int(1)}', '/b/{m:int(3)}/c', '/a/b'), ('/{x}/v{y}-{z}', '/k/{n:int(2)}', '/k/lit')]
THREAD_PATHS = [(('/a/5', '/b/777/c'), ('/a/5', '/b/777/c', '/a/b')), (('/q/v1-2', '/k/42'), ('/q/v1-2', '/k/42', '/k/lit'))]
_SEQ = []


def _seq_router(ri):
    if not _SEQ:
        _SEQ.append(seq.build(C))
    r = _SEQ[0]()
    for t in ROUTES[ri]:
        r.add_route(t, _R())
    return r


def _serial_find(ri, paths):
    r = C.CompiledRouter()
    for t in ROUTES[ri]:
        r.add_route(t, _R())
    out = []
    for p in paths:
        f = r.find(p)
        out.append((f[2], f[3]) if f else None)
    return out


_STEPS = {}


def thread_case(ri, nthreads, s1, d2, start, lo=0, hi=None):
    """Pre-emption at step s1 and (if d2 > 0) at step s1 + d2; `start` = the thread that runs first."""
    paths = THREAD_PATHS[ri][0 if nthreads == 2 else 1]
    key = (ri, nthreads)
    with notrace():
        if key not in _STEPS:
            _res, steps, _err = seq.run_threads(_seq_router(ri), paths, set())
            _STEPS[key] = steps
    total = _STEPS[key]
    if hi is None or hi > total:
        hi = total
    if not (lo <= s1 <= hi):
        return 2
    s1 = pick(s1, lo, hi)
    d2 = pick(d2, 0, 40)
    with notrace():
        switches = {s1} | ({s1 + d2} if d2 else set())
        res, steps, err = seq.run_threads(_seq_router(ri), paths, switches, start)
        got = [(x[2], x[3]) if x else None for x in res]
        exp = _serial_find(ri, paths)
        if any(err):
            return fail(lambda: 'threads %r, pre-emptions at %r, first thread %d: a thread died: %r' % (paths, sorted(switches), start, err))
        if got != exp:
            return fail(lambda: 'threads %r, pre-emptions at %r, first thread %d: results %r, serial %r' % (paths, sorted(switches), start, got, exp))
    return 1


def seq_selfcheck():
    """The sequentialized router == the real one when run without pre-emption (translation sanity)."""
    for ri in range(len(ROUTES)):
        for paths in THREAD_PATHS[ri]:
            res, steps, err = seq.run_threads(_seq_router(ri), paths, set())
            got = [(x[2], x[3]) if x else None for x in res]
            if any(err) or got != _serial_find(ri, paths):
                return fail(lambda: 'sequentialized router differs from the real one: %r vs %r (%r)' % (got, _serial_find(ri, paths), err))
    return 1


# ---------------------------------------------------------------- partitions
def partitions(tier, seed):
    P = []
    q = tier == 'quick'
    pairs = [(0, 1), (1, 0), (0, 2), (2, 3), (3, 4), (0, 0), (2, 5), (5, 1)]
    nb = 8 if q else 12
    for a, b in pairs:
        bits = ', '.join('c%d: bool' % i for i in range(nb))
        src = '''
def h(%s) -> int:
    """
    post: _ != 0
    """
    return concurrent_case([%d, %d], [%s])
''' % (bits, a, b, ', '.join('c%d' % i for i in range(nb)))
        P.append({'name': 'asgi_pair_%d_%d' % (a, b), 'fn': 'h', 'src': src, 'timeout': 200 if q else 900,
                  'bounds': 'two concurrent ASGI requests %s and %s (two body chunks each) on one app with context-storing middleware that also '
                            'writes into req.params; %d gate-order decisions symbolic; each response must equal the response of the same request '
                            'processed alone' % (REQS[a][0], REQS[b][0], nb)})
    if not q:
        for trip in [(0, 1, 2), (2, 5, 3), (0, 0, 1)]:
            bits = ', '.join('c%d: bool' % i for i in range(14))
            src = '''
def h(%s) -> int:
    """
    post: _ != 0
    """
    return concurrent_case([%d, %d, %d], [%s])
''' % ((bits,) + trip + (', '.join('c%d' % i for i in range(14)),))
            P.append({'name': 'asgi_triple_%d_%d_%d' % trip, 'fn': 'h', 'src': src, 'timeout': 1200,
                      'bounds': 'three concurrent ASGI requests, 14 gate-order decisions symbolic'})
    nct, nacc = len(CT_MENU), len(ACCEPT_MENU)
    for asgi in (0, 1):
        side = 'asgi' if asgi else 'wsgi'
        if q:
            # the response content type matters to a media response, Accept to error serialization: two slices instead of the product
            src = '''
def h(path: int, read: bool, ct: int, rct: int) -> int:
    """
    pre: 0 <= path <= 4 and 0 <= ct < %d and 0 <= rct < %d
    post: _ != 0
    """
    ct = pick(ct, 0, %d)
    rct = pick(rct, 0, %d)
    return frozen_case(%d, pick(path, 0, 4), 0, bool(pick(int(read), 0, 1)), ct, rct, (ct + rct) %% %d, 2 if ct in (4, 5) else 1)
''' % (nct, nct, nct - 1, nct - 1, asgi, nacc)
            P.append({'name': 'frozen_%s_media' % side, 'fn': 'h', 'src': src, 'timeout': 250,
                      'bounds': '(C) one %s POST on a warmed-up app, responder answers with media: path (5: route, converter veto, 404, sink, '
                                'other route) x request content type (%d) x response content type (%d, incl. parameterised / wildcard forms '
                                'resolved by fuzzy match) x body parsed or not -- every combination chosen by the solver (finite table) and '
                                'executed concretely; the snapshot of all shared app structures must be unchanged' % (side.upper(), nct, nct)})
            src = '''
def h(path: int, read: bool, ct: int, acc: int, kind: int) -> int:
    """
    pre: 0 <= path <= 4 and 0 <= ct < %d and 0 <= acc < %d and 1 <= kind <= 2
    post: _ != 0
    """
    return frozen_case(%d, pick(path, 0, 4), pick(kind, 1, 2), bool(pick(int(read), 0, 1)), pick(ct, 0, %d), 1, pick(acc, 0, %d), 3)
''' % (nct, nacc, asgi, nct - 1, nacc - 1)
            P.append({'name': 'frozen_%s_error' % side, 'fn': 'h', 'src': src, 'timeout': 250,
                      'bounds': '(C) one %s POST on a warmed-up app, responder raises HTTPError / an unhandled exception (or the request is '
                                'unroutable / has a malformed body): path (5) x request content type (%d) x Accept (%d) x body parsed or not; '
                                'shared-state snapshot unchanged' % (side.upper(), nct, nacc)})
            continue
        for path_i in range(5):
            src = '''
def h(kind: int, read: bool, ct: int, rct: int, acc: int, body: int) -> int:
    """
    pre: 0 <= kind <= 2 and 0 <= ct < %d and 0 <= rct < %d and 0 <= acc < %d and 0 <= body <= 3
    post: _ != 0
    """
    return frozen_case(%d, %d, pick(kind, 0, 2), bool(pick(int(read), 0, 1)), pick(ct, 0, %d), pick(rct, 0, %d), pick(acc, 0, %d), pick(body, 0, 3))
''' % (nct, nct, nacc, asgi, path_i, nct - 1, nct - 1, nacc - 1)
            P.append({'name': 'frozen_%s_path%d' % (side, path_i), 'fn': 'h', 'src': src, 'timeout': 900,
                      'bounds': '(C) one %s POST to %s on a warmed-up app: responder kind (media response / HTTPError / unhandled exception), '
                                'request content type (%d), response content type (%d, incl. parameterised and wildcard forms that resolve by '
                                'fuzzy match), Accept (%d), body (4), whether the body is parsed -- every combination, chosen by the solver '
                                '(finite table) and executed concretely; the snapshot of all shared app structures must be unchanged' % (
                                    side.upper(), ['/f/7', '/f/x (converter veto -> 404)', '/nope', '/sink/a', '/other'][path_i], nct, nct, nacc)})
    P.append({'name': 'seq_selfcheck', 'fn': 'h', 'concrete': True, 'timeout': 120, 'src': 'def h() -> int:\n    return seq_selfcheck()\n',
              'bounds': 'concrete: the sequentialized router (regenerated from the current source) equals the real router when run without '
                        'pre-emption'})
    for ri in range(len(ROUTES)):
        for nt in ((2,) if q else (2, 3)):
            width = 60 if q else 40
            paths_ = THREAD_PATHS[ri][0 if nt == 2 else 1]
            total_ = seq.run_threads(_seq_router(ri), paths_, set())[1]   # statement steps of this run on the current source
            for lo in range(0, total_ + 1, width):
                for start in range(nt):
                    src = '''
def h(s1: int, d2: int) -> int:
    """
    pre: %d <= s1 < %d and 0 <= d2 <= %d
    post: _ != 0
    """
    return thread_case(%d, %d, s1, d2, %d, %d, %d)
''' % (lo, lo + width, 20 if q else 40, ri, nt, start, lo, lo + width - 1)
                    P.append({'name': 'threads_routes%d_n%d_first%d_s%03d' % (ri, nt, start, lo), 'fn': 'h', 'src': src, 'timeout': 200 if q else 900,
                              'bounds': '%d first-ever find() calls %r racing on a fresh router with routes %r (sequentialized from the current source), '
                                        'thread %d runs first: pre-emption at statement position s1 in [%d, %d) and a second one within %d steps -- '
                                        'positions chosen by the solver, every schedule executed (positions beyond the end of the run are skipped)' % (
                                            nt, THREAD_PATHS[ri][0 if nt == 2 else 1], ROUTES[ri], start, lo, lo + width, 20 if q else 40)})
    return P
