"""C19 -- concurrent requests do not influence one another, from the very first request.

(A) ASGI tasks: 2-3 requests run as tasks of one falcon.asgi.App on the deterministic MiniLoop; every receive/send await is
    a gate and the order in which gates open is symbolic (one boolean per decision).  Each response must equal the response
    of the same request processed alone.
(B) Threads in the router: the lazy-compile path of CompiledRouter is SEQUENTIALIZED from its current source (engine/seq.py):
    2-3 first-ever find() calls race on a freshly built router whose routes carry different converter instances; the
    pre-emption positions are solver-chosen integers.  Every thread's result must equal the serial result; no exception.
"""
import engine.loader as _l
_l.install()

import collections  # noqa: E402

import falcon  # noqa: E402
import falcon.asgi  # noqa: E402
import falcon.routing.compiled as C  # noqa: E402

from engine import seq  # noqa: E402
from engine.envmodels import MiniLoop, running_loop  # noqa: E402
from engine.rt import fail, notrace, pick  # noqa: E402

PROPERTY = 'C19'
UNITS = ['falcon.asgi.app.App.__call__ (interleaved at every receive/send await)', 'falcon.asgi.request.Request', 'falcon.asgi.response.Response',
         'falcon.routing.compiled.CompiledRouter.find/_compile_and_find/_compile/_generate_ast/_generate_conversion_ast (sequentialized)']
STUBS = [
    '(A) event loop = MiniLoop; the server is the harness: every receive()/send() parks on a gate future the schedule opens',
    '(B) threads = generators produced by the AST sequentializer from the CURRENT source; pre-emption before every statement of the '
    'five methods; `with self._compile_lock` -> model lock; calls into other code (node constructors, regex compile, exec) are atomic; '
    'schedules are chosen by the solver (exhaustive pick) and executed concretely outside tracing',
]
OUTSIDE = ['real OS-thread interleavings at bytecode granularity across the whole App.__call__ (the engine is single-threaded; sub-statement '
           'races are below the sequentializer\'s granularity)', 'C-level lru_cache internals and the get_header name cache under threads',
           'more than 3 concurrent requests / 2 pre-emptions']
BUDGET = {'quick': 300, 'thorough': 900}


# ---------------------------------------------------------------- (A) ASGI tasks
class _MW:
    async def process_request(self, req, resp):
        req.context.tag = req.path
        req.params['tenant'] = req.get_header('X-Tenant') or 'none'     # application code may write into req.params

    async def process_response(self, req, resp, resource, ok):
        resp.set_header('X-Tag', req.context.tag)


class _Item:
    async def on_post(self, req, resp, n):
        body = await req.get_media()
        resp.media = {'n': n, 'echo': body, 'q': req.get_param('q'), 'tenant': req.get_param('tenant')}
        resp.set_cookie('c', str(n))


class _Plain:
    async def on_post(self, req, resp):
        data = await req.stream.read()
        resp.text = 'plain:%s:%s' % (req.get_param('tenant'), data.decode())


class _Boom:
    async def on_post(self, req, resp):
        await req.stream.read()
        raise falcon.HTTPConflict(title='boom', description=req.get_param('tenant'))


_APP = []


def _app():
    if not _APP:
        with notrace():
            app = falcon.asgi.App(middleware=[_MW()])
            app.add_route('/item/{n:int}', _Item())
            app.add_route('/plain', _Plain())
            app.add_route('/boom', _Boom())
            _APP.append(app)
    return _APP[0]


REQS = [('/item/7', b'q=a', b'{"v": 1}', 'acme'), ('/item/42', b'', b'[2]', 'globex'), ('/plain', b'', b'hello', 'initech'),
        ('/boom', b'', b'x', 'umbrella'), ('/nope', b'', b'', 'none'), ('/plain', b'x=1', b'zz', 'hooli')]


def run_concurrent(picks, choices):
    app = _app()
    loop = MiniLoop()
    outs = []
    with running_loop(loop):
        gates = []    # (task index, future)
        tasks = []
        for ti, idx in enumerate(picks):
            path, qs, body, tenant = REQS[idx]
            sent = []
            outs.append(sent)
            half = len(body) // 2
            chunks = collections.deque([{'type': 'http.request', 'body': body[:half], 'more_body': True},
                                        {'type': 'http.request', 'body': body[half:], 'more_body': False}])

            async def receive(chunks=chunks, ti=ti):
                f = loop.create_future()
                gates.append((ti, f))
                await f
                return chunks.popleft() if chunks else {'type': 'http.disconnect'}

            async def send(ev, sent=sent, ti=ti):
                f = loop.create_future()
                gates.append((ti, f))
                await f
                sent.append(ev)
            scope = {'type': 'http', 'asgi': {'version': '3.0', 'spec_version': '2.1'}, 'http_version': '1.1', 'method': 'POST',
                     'scheme': 'http', 'path': path, 'raw_path': path.encode(), 'query_string': qs, 'root_path': '',
                     'headers': [(b'host', b'x'), (b'content-type', b'application/json'), (b'content-length', str(len(body)).encode()),
                                 (b'x-tenant', tenant.encode())],
                     'client': ('1.1.1.1', 1), 'server': ('x', 80)}
            tasks.append(loop.create_task(app(scope, receive, send)))
        ci = 0
        guard = 0
        while not all(t.done() for t in tasks):
            guard += 1
            if guard > 5000:
                return None
            if loop._ready:
                loop.run_one()
                continue
            if not gates:
                return None
            # the environment decides which parked task continues: a symbolic choice whenever more than one is parked
            k = 0
            if len(gates) > 1:
                c = choices[ci] if ci < len(choices) else False
                ci += 1
                k = 1 if c else 0
                if len(gates) > 2 and c:
                    c2 = choices[ci] if ci < len(choices) else False
                    ci += 1
                    k = 2 if c2 else 1
            ti, f = gates.pop(k)
            f.set_result(None)
        for t in tasks:
            t.result()
    return [_norm(s) for s in outs]


def _norm(sent):
    status = None
    headers = None
    body = b''
    for ev in sent:
        if ev['type'] == 'http.response.start':
            status = ev['status']
            headers = sorted(ev['headers'])
        elif ev['type'] == 'http.response.body':
            body += ev.get('body', b'')
    return status, headers, body


_SERIAL = {}


def _serial(idx):
    if idx not in _SERIAL:
        with notrace():
            _SERIAL[idx] = run_concurrent([idx], [])[0]
    return _SERIAL[idx]


def concurrent_case(picks, choices):
    base = [_serial(i) for i in picks]
    got = run_concurrent(picks, choices)
    if got is None:
        return fail(lambda: 'requests %r under schedule %r: deadlock / livelock' % (picks, choices))
    if got != base:
        return fail(lambda: 'requests %r under schedule %r:\n  concurrent %r\n  alone      %r' % ([REQS[i][0] for i in picks], choices, got, base))
    return 1


# ---------------------------------------------------------------- (B) threads in the router
class _R:
    def on_get(self, req, resp, **kw):
        pass


ROUTES = [('/a/{n:int(1)}', '/b/{m:int(3)}/c', '/a/b'), ('/{x}/v{y}-{z}', '/k/{n:int(2)}', '/k/lit')]
THREAD_PATHS = [(('/a/5', '/b/777/c'), ('/a/5', '/b/777/c', '/a/b')), (('/q/v1-2', '/k/42'), ('/q/v1-2', '/k/42', '/k/lit'))]
_SEQ = []


def _seq_router(ri):
    if not _SEQ:
        _SEQ.append(seq.build(C))
    r = _SEQ[0]()
    for t in ROUTES[ri]:
        r.add_route(t, _R())
    return r


def _serial_find(ri, paths):
    r = C.CompiledRouter()
    for t in ROUTES[ri]:
        r.add_route(t, _R())
    out = []
    for p in paths:
        f = r.find(p)
        out.append((f[2], f[3]) if f else None)
    return out


_STEPS = {}


def thread_case(ri, nthreads, s1, d2, start, lo=0, hi=None):
    """Pre-emption at step s1 and (if d2 > 0) at step s1 + d2; `start` = the thread that runs first."""
    paths = THREAD_PATHS[ri][0 if nthreads == 2 else 1]
    key = (ri, nthreads)
    with notrace():
        if key not in _STEPS:
            _res, steps, _err = seq.run_threads(_seq_router(ri), paths, set())
            _STEPS[key] = steps
    total = _STEPS[key]
    if hi is None or hi > total:
        hi = total
    if not (lo <= s1 <= hi):
        return 2
    s1 = pick(s1, lo, hi)
    d2 = pick(d2, 0, 40)
    with notrace():
        switches = {s1} | ({s1 + d2} if d2 else set())
        res, steps, err = seq.run_threads(_seq_router(ri), paths, switches, start)
        got = [(x[2], x[3]) if x else None for x in res]
        exp = _serial_find(ri, paths)
        if any(err):
            return fail(lambda: 'threads %r, pre-emptions at %r, first thread %d: a thread died: %r' % (paths, sorted(switches), start, err))
        if got != exp:
            return fail(lambda: 'threads %r, pre-emptions at %r, first thread %d: results %r, serial %r' % (paths, sorted(switches), start, got, exp))
    return 1


def seq_selfcheck():
    """The sequentialized router == the real one when run without pre-emption (translation sanity)."""
    for ri in range(len(ROUTES)):
        for paths in THREAD_PATHS[ri]:
            res, steps, err = seq.run_threads(_seq_router(ri), paths, set())
            got = [(x[2], x[3]) if x else None for x in res]
            if any(err) or got != _serial_find(ri, paths):
                return fail(lambda: 'sequentialized router differs from the real one: %r vs %r (%r)' % (got, _serial_find(ri, paths), err))
    return 1


# ---------------------------------------------------------------- partitions
def partitions(tier, seed):
    P = []
    q = tier == 'quick'
    pairs = [(0, 1), (1, 0), (0, 2), (2, 3), (3, 4), (0, 0), (2, 5), (5, 1)]
    nb = 8 if q else 12
    for a, b in pairs:
        bits = ', '.join('c%d: bool' % i for i in range(nb))
        src = '''
def h(%s) -> int:
    """
    post: _ != 0
    """
    return concurrent_case([%d, %d], [%s])
''' % (bits, a, b, ', '.join('c%d' % i for i in range(nb)))
        P.append({'name': 'asgi_pair_%d_%d' % (a, b), 'fn': 'h', 'src': src, 'timeout': 200 if q else 900,
                  'bounds': 'two concurrent ASGI requests %s and %s (two body chunks each) on one app with context-storing middleware that also '
                            'writes into req.params; %d gate-order decisions symbolic; each response must equal the response of the same request '
                            'processed alone' % (REQS[a][0], REQS[b][0], nb)})
    if not q:
        for trip in [(0, 1, 2), (2, 5, 3), (0, 0, 1)]:
            bits = ', '.join('c%d: bool' % i for i in range(14))
            src = '''
def h(%s) -> int:
    """
    post: _ != 0
    """
    return concurrent_case([%d, %d, %d], [%s])
''' % ((bits,) + trip + (', '.join('c%d' % i for i in range(14)),))
            P.append({'name': 'asgi_triple_%d_%d_%d' % trip, 'fn': 'h', 'src': src, 'timeout': 1200,
                      'bounds': 'three concurrent ASGI requests, 14 gate-order decisions symbolic'})
    P.append({'name': 'seq_selfcheck', 'fn': 'h', 'concrete': True, 'timeout': 120, 'src': 'def h() -> int:\n    return seq_selfcheck()\n',
              'bounds': 'concrete: the sequentialized router (regenerated from the current source) equals the real router when run without '
                        'pre-emption'})
    for ri in range(len(ROUTES)):
        for nt in ((2,) if q else (2, 3)):
            width = 60 if q else 40
            paths_ = THREAD_PATHS[ri][0 if nt == 2 else 1]
            total_ = seq.run_threads(_seq_router(ri), paths_, set())[1]   # statement steps of this run on the current source
            for lo in range(0, total_ + 1, width):
                for start in range(nt):
                    src = '''
def h(s1: int, d2: int) -> int:
    """
    pre: %d <= s1 < %d and 0 <= d2 <= %d
    post: _ != 0
    """
    return thread_case(%d, %d, s1, d2, %d, %d, %d)
''' % (lo, lo + width, 20 if q else 40, ri, nt, start, lo, lo + width - 1)
                    P.append({'name': 'threads_routes%d_n%d_first%d_s%03d' % (ri, nt, start, lo), 'fn': 'h', 'src': src, 'timeout': 200 if q else 900,
                              'bounds': '%d first-ever find() calls %r racing on a fresh router with routes %r (sequentialized from the current source), '
                                        'thread %d runs first: pre-emption at statement position s1 in [%d, %d) and a second one within %d steps -- '
                                        'positions chosen by the solver, every schedule executed (positions beyond the end of the run are skipped)' % (
                                            nt, THREAD_PATHS[ri][0 if nt == 2 else 1], ROUTES[ri], start, lo, lo + width, 20 if q else 40)})
    return P
