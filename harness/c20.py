"""C20 -- the built-in CORS policy grants exactly the configured origins.

Real code: falcon.middleware.CORSMiddleware (unit level on real Request/Response
objects) and whole falcon.App / falcon.asgi.App instances with the middleware
(app level: req_succeeded wiring, OPTIONS responders, sinks, unrouted paths).
Oracle: the decision table written from the property text.
"""
import engine.loader as _l
_l.install()

import falcon  # noqa: E402
import falcon.asgi  # noqa: E402
from falcon.request import Request, RequestOptions  # noqa: E402
from falcon.response import Response, ResponseOptions  # noqa: E402

from engine.envmodels import asgi_call, make_environ, make_scope, wsgi_call  # noqa: E402
from engine.rt import fail, notrace  # noqa: E402

PROPERTY = 'C20'
UNITS = ['falcon.middleware.CORSMiddleware.__init__/process_response/process_response_async', 'falcon.app.App.__call__ '
         '(req_succeeded wiring, middleware stack)', 'falcon.asgi.app.App.__call__', 'falcon.responders.create_default_options',
         'falcon.response.Response.get_header/set_header/delete_header']
STUBS = [
    'origins are drawn from a menu by a symbolic index (membership in a frozenset hashes, i.e. realizes, a symbolic string); '
    'the menu holds every class the code can distinguish: equal, different, case variant, proper prefix/substring, superstring, '
    '"null", the literal "*"',
    'apps are built concretely (outside tracing) once per worker; requests are driven by the harness WSGI/ASGI drivers',
]
OUTSIDE = ['origins outside the menu', 'static-route targets (file I/O)', 'more than one additional middleware']
BUDGET = {'quick': 300, 'thorough': 900}

ORIG = ['https://a.b', 'https://b', 'https://A.b', 'https://a', 'null', '*', 'https', 'https://a.b.c']


def cfg_origins(k):
    return ['*', ORIG[0], [ORIG[0], ORIG[1]], ORIG[3], (ORIG[7],)][k]


def set_origins(k):
    return [None, {ORIG[0]}, {ORIG[0], ORIG[1]}, {ORIG[3]}, {ORIG[7]}][k]


def cfg_creds(k):
    return [None, '*', ORIG[0], [ORIG[1]], {ORIG[0], ORIG[3]}, ORIG[7]][k]


def set_creds(k):
    """None = everyone"""
    return [set(), None, {ORIG[0]}, {ORIG[1]}, {ORIG[0], ORIG[3]}, {ORIG[7]}][k]


def expected(ao, ac, expose, origin, preset, preflight, allow, acrh):
    """-> dict of expected access-control-* headers, or None for 'response untouched'."""
    allowed = set_origins(ao)
    if origin is None or (allowed is not None and origin not in allowed):
        return None
    creds = set_creds(ac)
    cred_ok = creds is None or origin in creds
    exp = {}
    if preset:
        exp['access-control-allow-origin'] = 'https://preset'
    else:
        exp['access-control-allow-origin'] = origin if (cred_ok or allowed is not None) else '*'
        if cred_ok:
            exp['access-control-allow-credentials'] = 'true'
    if expose:
        exp['access-control-expose-headers'] = 'X-E'
    if preflight:
        if allow is not None:
            exp['access-control-allow-methods'] = allow
            exp['access-control-allow-headers'] = acrh if acrh else '*'
            exp['access-control-max-age'] = '86400'
        else:
            exp = {}
    return exp


def _invariants(cors, ao):
    """Clauses of the property that hold whatever the table says."""
    if cors.get('access-control-allow-credentials') is not None and cors.get('access-control-allow-origin') == '*':
        return 'wildcard origin together with a credentials grant'
    return None


def unit_case(ao, ac, expose, oi, method, acrm, acrh, allow, preset, ok):
    mw = falcon.CORSMiddleware(allow_origins=cfg_origins(ao), allow_credentials=cfg_creds(ac),
                               expose_headers='X-E' if expose else None)
    hs = []
    origin = ORIG[oi] if oi >= 0 else None
    if origin is not None:
        hs.append(('Origin', origin))
    if acrm:
        hs.append(('Access-Control-Request-Method', 'PUT'))
    if acrh:
        hs.append(('Access-Control-Request-Headers', 'X-H'))
    m = ['GET', 'OPTIONS', 'POST'][method]
    req = Request(make_environ(method=m, path='/x', headers=hs), options=RequestOptions())
    resp = Response(options=ResponseOptions())
    if allow:
        resp.set_header('Allow', 'GET, PUT')
    if preset:
        resp.set_header('Access-Control-Allow-Origin', 'https://preset')
    before = dict(resp.headers)
    mw.process_response(req, resp, None, ok)
    h = dict(resp.headers)
    cors = {k: v for k, v in h.items() if k.startswith('access-control-')}
    preflight = ok and m == 'OPTIONS' and acrm
    exp = expected(ao, ac, expose, origin, preset, preflight, 'GET, PUT' if allow else None, 'X-H' if acrh else None)
    if exp is None:
        if h != before:
            return fail(lambda: 'origin %r not allowed by %r but headers changed: %r -> %r' % (origin, cfg_origins(ao), before, h))
        return 1
    bad = _invariants(cors, ao)
    if bad and not preset and origin != '*':  # echoing a request whose Origin is literally "*" is not the middleware's wildcard
        return fail(lambda: bad + ': %r' % (cors,))
    if cors != exp:
        return fail(lambda: 'allow_origins=%r allow_credentials=%r Origin=%r %s acrm=%r allow=%r ok=%r: CORS headers %r, expected %r' % (
            cfg_origins(ao), cfg_creds(ac), origin, m, acrm, allow, ok, cors, exp))
    if preflight and 'allow' in h:
        return fail('Allow header not removed from an evaluated preflight')
    if not preflight and allow and h.get('allow') != 'GET, PUT':
        return fail('Allow header touched outside a preflight')
    return 1


# ---------------------------------------------------------------- app level
class _Plain:
    def on_get(self, req, resp):
        resp.text = 'ok'


class _OptAllow:
    def on_get(self, req, resp):
        resp.text = 'ok'

    def on_options(self, req, resp):
        resp.set_header('Allow', 'GET, PATCH')


class _OptNoAllow:
    def on_options(self, req, resp):
        resp.text = ''


class _OptStatus:
    def on_options(self, req, resp):
        raise falcon.HTTPStatus(falcon.HTTP_403, headers={'Allow': 'GET'})


class _OptStatus200:
    def on_options(self, req, resp):
        resp.set_header('Allow', 'GET')
        raise falcon.HTTPStatus(falcon.HTTP_200)


class _OptHTTPError:
    def on_options(self, req, resp):
        resp.set_header('Allow', 'GET')
        raise falcon.HTTPBadRequest()


class _OptBoom:
    def on_options(self, req, resp):
        resp.set_header('Allow', 'GET')
        raise ValueError('boom')


class _Preset:
    def on_get(self, req, resp):
        resp.set_header('Access-Control-Allow-Origin', 'https://preset')

    def on_options(self, req, resp):
        resp.set_header('Access-Control-Allow-Origin', 'https://preset')
        resp.set_header('Allow', 'GET')


def _sink(req, resp, **kw):
    resp.text = 'sink'


async def _asink(req, resp, **kw):
    resp.text = 'sink'


class _Marker:
    """A second middleware below CORS: must not disturb the policy."""

    def process_response(self, req, resp, resource, req_succeeded):
        resp.set_header('X-Marker', '1')

    async def process_response_async(self, req, resp, resource, req_succeeded):
        resp.set_header('X-Marker', '1')


# NOTE: a responder raising HTTPStatus(200) is deliberately NOT a target: whether that counts as a
# 'successful exchange' is a design decision the property does not settle.
TARGETS = ['/plain', '/optallow', '/optnoallow', '/optstatus', '/opterror', '/optboom', '/preset', '/sink/x', '/nowhere']
_APPS = {}


def _app(asgi, ao, ac, expose, extra_mw):
    key = (asgi, ao, ac, expose, extra_mw)
    if key not in _APPS:
        with notrace():
            mw = [falcon.CORSMiddleware(allow_origins=cfg_origins(ao), allow_credentials=cfg_creds(ac),
                                        expose_headers=['X-E'] if expose else None)]
            if extra_mw:
                mw.append(_Marker())
            app = (falcon.asgi.App if asgi else falcon.App)(middleware=mw)
            for path, cls in (('/plain', _Plain), ('/optallow', _OptAllow), ('/optnoallow', _OptNoAllow),
                              ('/optstatus', _OptStatus), ('/opterror', _OptHTTPError), ('/optboom', _OptBoom),
                              ('/preset', _Preset), ('/optstatus200', _OptStatus200)):
                res = cls()
                if asgi:
                    res = _asyncify(res)
                app.add_route(path, res)
            app.add_sink(_asink if asgi else _sink, '/sink')
            # warm-up (what the first requests of a process do): router compilation and the various memo caches,
            # so that every symbolic path afterwards executes the same code
            for t in TARGETS:
                for m in ('GET', 'OPTIONS', 'POST'):
                    hs = [('Origin', ORIG[0]), ('Access-Control-Request-Method', 'PUT'), ('Access-Control-Request-Headers', 'X-H')]
                    if asgi:
                        asgi_call(app, make_scope(method=m, path=t, headers=hs))
                    else:
                        wsgi_call(app, make_environ(method=m, path=t, headers=hs))
            _APPS[key] = app
    return _APPS[key]


def _asyncify(res):
    class A:
        pass
    a = A()
    for name in ('on_get', 'on_options'):
        fn = getattr(res, name, None)
        if fn is not None:
            def mk(f):
                async def responder(req, resp, **kw):
                    return f(req, resp, **kw)
                return responder
            setattr(a, name, mk(fn))
    return a


def app_case(asgi, ao, ac, expose, extra_mw, ti, oi, method, acrm, acrh):
    expose = True if expose else False  # decide before it is used as a cache key (cache lookups must not fork)
    app = _app(asgi, ao, ac, expose, extra_mw)
    hs = []
    origin = ORIG[oi] if oi >= 0 else None
    if origin is not None:
        hs.append(('Origin', origin))
    if acrm:
        hs.append(('Access-Control-Request-Method', 'PUT'))
    if acrh:
        hs.append(('Access-Control-Request-Headers', 'X-H'))
    m = ['GET', 'OPTIONS', 'POST'][method]
    path = TARGETS[ti]
    if asgi:
        r = asgi_call(app, make_scope(method=m, path=path, headers=hs))
        h = {}
        for k, v in r.headers:
            h[k.decode('latin-1')] = v.decode('latin-1')
    else:
        r = wsgi_call(app, make_environ(method=m, path=path, headers=hs))
        h = {k.lower(): v for k, v in r.headers}
    cors = {k: v for k, v in h.items() if k.startswith('access-control-')}
    # what the responder did, per target
    raised = path in ('/optstatus', '/opterror', '/optboom', '/nowhere', '/optstatus200') and (m == 'OPTIONS' or path == '/nowhere')
    if path in ('/optnoallow', '/optstatus', '/opterror', '/optboom', '/optstatus200') and m != 'OPTIONS':
        raised = True  # 405
    if path in ('/plain', '/optallow', '/preset') and m == 'POST':
        raised = True  # 405
    succeeded = not raised
    preset = path == '/preset' and m in ('GET', 'OPTIONS')
    allow = None
    if m == 'OPTIONS' and succeeded:
        allow = {'/plain': 'GET', '/optallow': 'GET, PATCH', '/preset': 'GET'}.get(path)
    preflight = succeeded and m == 'OPTIONS' and acrm
    exp = expected(ao, ac, expose, origin, preset, preflight, allow, 'X-H' if acrh else None)
    if exp is None:
        exp = {'access-control-allow-origin': 'https://preset'} if preset else {}
    if cors != exp:
        return fail(lambda: '%s %s %s Origin=%r allow_origins=%r allow_credentials=%r acrm=%r: CORS headers %r, expected %r (status %r)' % (
            'ASGI' if asgi else 'WSGI', m, path, origin, cfg_origins(ao), cfg_creds(ac), acrm, cors, exp, r.status))
    bad = _invariants(cors, ao)
    if bad and not preset and origin != '*':
        return fail(lambda: bad)
    if preflight and exp is not None and origin is not None and 'allow' in h and (set_origins(ao) is None or origin in set_origins(ao)):
        return fail('Allow header survived an evaluated preflight')
    if extra_mw and h.get('x-marker') != '1':
        return fail('second middleware did not run')
    return 1


# ---------------------------------------------------------------- partitions
def _unit_part(ao, ac, timeout, quick=False):
    if quick:
        # quick: origins {absent, equal, different, proper prefix, literal *, superstring}; expose/ACRH fixed by config parity
        src = '''
def h(oi: int, method: int, acrm: bool, allow: bool, preset: bool, ok: bool) -> int:
    """
    pre: oi in (-1, 0, 1, 3, 5, 7) and 0 <= method <= 2
    post: _ != 0
    """
    return unit_case(%d, %d, %s, oi, method, acrm, %s, allow, preset, ok)
''' % (ao, ac, bool((ao + ac) % 2), bool(ao % 2))
    else:
        src = '''
def h(expose: bool, oi: int, method: int, acrm: bool, acrh: bool, allow: bool, preset: bool, ok: bool) -> int:
    """
    pre: -1 <= oi < %d and 0 <= method <= 2
    post: _ != 0
    """
    return unit_case(%d, %d, expose, oi, method, acrm, acrh, allow, preset, ok)
''' % (len(ORIG), ao, ac)
    return {'name': 'unit_ao%d_ac%d' % (ao, ac), 'fn': 'h', 'src': src, 'timeout': timeout,
            'bounds': 'CORSMiddleware(allow_origins=%r, allow_credentials=%r).process_response on real Request/Response: Origin index '
                      '(absent or one of %d menu origins), method, ACRM/ACRH presence, Allow preset, ACAO preset by the responder, '
                      'expose_headers, req_succeeded all symbolic' % (cfg_origins(ao), cfg_creds(ac), len(ORIG))}


def _app_part(asgi, ao, ac, extra_mw, ti, timeout):
    src = '''
def h(expose: bool, oi: int, method: int, acrm: bool, acrh: bool) -> int:
    """
    pre: -1 <= oi < %d and 0 <= method <= 2
    post: _ != 0
    """
    return app_case(%d, %d, %d, expose, %d, %d, oi, method, acrm, acrh)
''' % (len(ORIG), asgi, ao, ac, extra_mw, ti)
    return {'name': 'app_%s_ao%d_ac%d_mw%d_%s' % ('asgi' if asgi else 'wsgi', ao, ac, extra_mw, TARGETS[ti].strip('/').replace('/', '')),
            'fn': 'h', 'src': src, 'timeout': timeout,
            'bounds': 'whole %s app with CORSMiddleware(allow_origins=%r, allow_credentials=%r)%s, target %s; Origin index, method '
                      '(GET/OPTIONS/POST), ACRM/ACRH presence, expose_headers symbolic' % (
                          'falcon.asgi.App' if asgi else 'falcon.App', cfg_origins(ao), cfg_creds(ac),
                          ' + a second middleware' if extra_mw else '', TARGETS[ti])}


def partitions(tier, seed):
    P = []
    q = tier == 'quick'
    for ao in range(5):
        for ac in range(6):
            P.append(_unit_part(ao, ac, 120 if q else 600, quick=q))
    combos = [(0, 2), (2, 3), (0, 1), (3, 4)] if q else [(ao, ac) for ao in range(5) for ac in range(6)]
    for ci, (ao, ac) in enumerate(combos):
        for ti in range(len(TARGETS)):
            for asgi in (0, 1):
                if q and (ti + ci + asgi) % 2:
                    continue  # quick: every target on both interfaces, alternating configurations
                P.append(_app_part(asgi, ao, ac, 1 if (ti % 3 == 0) else 0, ti, 150 if q else 400))
    return P
