"""C12 -- media round-trips unchanged and request media is parsed at most once.

Real code: Response.media -> render_body (JSONHandler / URLEncodedFormHandler serialize), Request.get_media / .media on
WSGI and ASGI (handler resolution, bounded stream, caching of the value or of the error), media.json / media.urlencoded.
(1) round trip: a document of a shape with symbolic leaves -> body -> chunked request -> get_media() == document
(2) parse-once histories over get_media() / get_media(default_when_empty=d) / .media on a valid, an empty and an
    arbitrary (symbolic, possibly undecodable) body; the stream counts reads, the handler counts parses.
"""
import engine.loader as _l
_l.install()

import falcon  # noqa: E402
import falcon.asgi  # noqa: E402
import falcon.media  # noqa: E402
from falcon import errors  # noqa: E402
from falcon.response import Response, ResponseOptions  # noqa: E402

from engine.envmodels import make_environ, make_scope  # noqa: E402
from engine.rt import pick, fail, run_coro  # noqa: E402
from harness.c07 import FakeInput  # noqa: E402

PROPERTY = 'C12'
UNITS = ['falcon.response.Response.media/render_body', 'falcon.request.Request.get_media/media', 'falcon.asgi.request.Request.get_media/media',
         'falcon.media.json.JSONHandler', 'falcon.media.urlencoded.URLEncodedFormHandler', 'falcon.media.handlers.Handlers._resolve']
STUBS = [
    'JSON text is produced and parsed by CrossHair\'s bundled pure-Python model of json when data is symbolic (the C accelerator '
    'cannot take symbolic strings; production uses the accelerator) -- ~4 s per path, so string leaves are 1 character',
    'WSGI body source = C07 FakeInput (counts reads); ASGI body = scripted http.request events (chunking by shape)',
    'special floats are excluded by the property; floats are not symbolic (the engine never confirms symbolic floats)',
]
OUTSIDE = ['documents beyond the enumerated shapes', 'msgpack (not installed)', 'string leaves longer than 1 character', 'multipart (C13)']
BUDGET = {'quick': 300, 'thorough': 900}

CTYPES = ['application/json', 'application/json; charset=utf-8', 'application/json ;v=1']


class CountingInput(FakeInput):
    def __init__(self, raw):
        FakeInput.__init__(self, raw)
        self.reads = 0

    def read(self, size=-1):
        self.reads += 1
        return FakeInput.read(self, size)


def wsgi_req(body, ctype):
    src = CountingInput(body)
    hs = [('Content-Length', str(len(body)))]
    if ctype is not None:
        hs.append(('Content-Type', ctype))
    env = make_environ(method='POST', path='/', headers=hs, input_stream=src)
    return falcon.Request(env), src


class Events:
    def __init__(self, body, cuts):
        self.chunks = []
        pos = 0
        for c in list(cuts) + [len(body)]:
            self.chunks.append(body[pos:c])
            pos = c
        self.i = 0
        self.calls = 0

    async def receive(self):
        self.calls += 1
        if self.i < len(self.chunks):
            ev = {'type': 'http.request', 'body': self.chunks[self.i], 'more_body': self.i < len(self.chunks) - 1}
            self.i += 1
            return ev
        return {'type': 'http.disconnect'}


def asgi_req(body, ctype, cuts=()):
    ev = Events(body, cuts)
    hs = [('Content-Length', str(len(body)))]
    if ctype is not None:
        hs.append(('Content-Type', ctype))
    return falcon.asgi.Request(make_scope(method='POST', path='/', headers=hs), ev.receive), ev


def _get(req, asgi, **kw):
    if asgi:
        return run_coro(req.get_media(**kw))
    return req.get_media(**kw)


# ---------------------------------------------------------------- round trip
def build_doc(shape, s, n, b):
    """shape: 0 scalar str, 1 scalar int, 2 [s, n], 3 {'k': s, 'n': n}, 4 {'a': [b, None], 'b': {'c': s}}, 5 bool/None scalars"""
    if shape == 0:
        return s
    if shape == 1:
        return n
    if shape == 2:
        return [s, n]
    if shape == 3:
        return {'k': s, 'n': n}
    if shape == 4:
        return {'a': [b, None], 'b': {'c': s}}
    return [b, None, n]


def roundtrip_case(asgi, shape, s, n, b, ci, cut):
    for ch in s:
        if 0xD800 <= ord(ch) <= 0xDFFF:
            return 2
    doc = build_doc(shape, s, n, b)
    resp = (falcon.asgi.Response if asgi else Response)(options=ResponseOptions())
    resp.media = doc
    resp.content_type = CTYPES[ci]
    body = run_coro(resp.render_body()) if asgi else resp.render_body()
    if type(body) is not bytes and not isinstance(body, bytes):
        return fail(lambda: 'render_body returned %r' % (type(body),))
    if asgi:
        c = cut if 0 <= cut <= len(body) else len(body)
        req, src = asgi_req(body, CTYPES[ci], (c,))
    else:
        req, src = wsgi_req(body, CTYPES[ci])
    back = _get(req, asgi)
    if back != doc:
        return fail(lambda: 'media %r serialized as %r deserializes to %r' % (doc, body, back))
    again = _get(req, asgi)
    if again is not back:
        return fail('second get_media() returned a different object')
    return 1


def reassign_case(asgi, shape, n, early, how, form):
    """resp.media assigned, (optionally) rendered early -- what a digest / ETag hook does --, then assigned again: the same
    object after an in-place change (how 0), an equal copy (1), another document (2).  The body finally rendered must be
    the serialization of the document as last assigned."""
    doc = ['x', n] if shape == 2 else {'k': 'x', 'n': str(n) if form else n}
    resp = (falcon.asgi.Response if asgi else Response)(options=ResponseOptions())
    resp.content_type = falcon.MEDIA_URLENCODED if form else falcon.MEDIA_JSON
    resp.media = doc
    if early:
        first = run_coro(resp.render_body()) if asgi else resp.render_body()
        if not first:
            return fail('early render_body() returned nothing')
    if how == 0:
        if shape == 2:
            doc.append('more')
        else:
            doc['extra'] = 'more'
        final = doc
    elif how == 1:
        final = list(doc) if shape == 2 else dict(doc)
    else:
        final = ['y'] if shape == 2 else {'other': 'y'}
    resp.media = final
    body = run_coro(resp.render_body()) if asgi else resp.render_body()
    req, src = (asgi_req(body, resp.content_type) if asgi else wsgi_req(body, resp.content_type))
    back = _get(req, asgi)
    if back != final:
        return fail(lambda: 'media assigned last %r (early render %r, re-assignment kind %d) is sent as %r' % (final, early, how, body))
    return 1


ENC_DOCS = ['1', '"a"', '[]', '{"k": [true, null]}', '"\u00e9"']
ENC_NAMES = ['utf-8', 'utf-16-le', 'utf-16-be', 'utf-32-le', 'utf-32-be', 'latin-1']
ENC_BOMS = [b'', b'\xef\xbb\xbf', b'\xff\xfe', b'\xfe\xff', b'\xff\xfe\x00\x00', b'\x00\x00\xfe\xff']


def encoding_case(asgi, di, ei, bi):
    """A JSON text in an encoding / with a byte-order mark: request media is UTF-8 (RFC 8259, no BOM); everything else is an
    undecodable / malformed body -> the 400-class malformed-media error, never a parsed document and never a server error."""
    import json as _json
    text = ENC_DOCS[di]
    body = ENC_BOMS[bi] + text.encode(ENC_NAMES[ei])
    good = None
    try:
        good = _json.loads(body.decode('utf-8'))
        ok = True
    except ValueError:
        ok = False
    req, src = (asgi_req(body, falcon.MEDIA_JSON) if asgi else wsgi_req(body, falcon.MEDIA_JSON))
    try:
        got = ('ok', _get(req, asgi))
    except falcon.MediaMalformedError:
        got = ('malformed',)
    except falcon.HTTPError as e:
        got = ('http', e.status_code)
    if ok and got != ('ok', good):
        return fail(lambda: 'body %r (valid UTF-8 JSON %r): %r' % (body, good, got))
    if not ok and got != ('malformed',):
        return fail(lambda: 'body %r (%s%s, not a UTF-8 JSON text) -> %r, expected the malformed-media error' % (
            body, ENC_NAMES[ei], ' with a BOM' if bi else '', got))
    return 1


def form_case(asgi, k1, v1, v2):
    for ch in v1 + v2:
        if 0xD800 <= ord(ch) <= 0xDFFF or (not asgi and False):
            return 2
    doc = {['a', 'b c', '\xe9'][k1]: v1, 'z': v2}
    resp = (falcon.asgi.Response if asgi else Response)(options=ResponseOptions())
    resp.media = doc
    resp.content_type = falcon.MEDIA_URLENCODED
    body = run_coro(resp.render_body()) if asgi else resp.render_body()
    req, src = (asgi_req(body, falcon.MEDIA_URLENCODED) if asgi else wsgi_req(body, falcon.MEDIA_URLENCODED))
    back = _get(req, asgi)
    exp = {k: v for k, v in doc.items() if v != ''}   # blank values are dropped unless keep_blank_qs_values (documented)
    if req.options.keep_blank_qs_values:
        exp = doc
    if back != exp:
        return fail(lambda: 'form %r serialized as %r deserializes to %r' % (doc, body, back))
    return 1


# ---------------------------------------------------------------- parse once
class CountingJSON(falcon.media.JSONHandler):
    parses = 0

    def _deserialize(self, data):
        CountingJSON.parses += 1
        return falcon.media.JSONHandler._deserialize(self, data)


H_OPS = {0: 'get_media()', 1: 'get_media(default_when_empty=D)', 2: '.media'}
DEFAULT = {'default': True}


def history_case(asgi, body, ops, counting):
    if asgi:
        req, src = asgi_req(body, 'application/json')
    else:
        req, src = wsgi_req(body, 'application/json')
    if counting:
        h = CountingJSON()
        CountingJSON.parses = 0
        req.options.media_handlers['application/json'] = h
    first = None
    reads_after_first = None
    for k, op in enumerate(ops):
        try:
            if op == 0:
                out = ('ok', _get(req, asgi))
            elif op == 1:
                out = ('ok', _get(req, asgi, default_when_empty=DEFAULT))
            else:
                out = ('ok', run_coro(req.media) if asgi else req.media)
        except errors.MediaNotFoundError as e:
            out = ('notfound', e)
        except errors.MediaMalformedError as e:
            out = ('malformed', e)
        except falcon.HTTPError as e:
            return fail(lambda: 'op#%d %s raised %r' % (k, H_OPS[op], e))
        # anything else escapes -> violation (a 5xx)
        if out[0] in ('notfound', 'malformed') and not (400 <= out[1].status_code <= 499):
            return fail(lambda: 'media error with status %r' % (out[1].status,))
        reads = src.calls if asgi else src.reads
        if first is None:
            first = out
            reads_after_first = reads
            if len(body) == 0:
                if op == 1:
                    if out != ('ok', DEFAULT):
                        return fail(lambda: 'empty body with a default: %r' % (out,))
                elif out[0] != 'notfound':
                    return fail(lambda: 'empty body: %r' % (out,))
        else:
            if reads != reads_after_first:
                return fail(lambda: 'op#%d %s touched the stream again (%d reads, %d after the first parse); history %r' % (
                    k, H_OPS[op], reads, reads_after_first, [H_OPS[o] for o in ops]))
            if counting and CountingJSON.parses > 1:
                return fail(lambda: 'request media parsed %d times; history %r' % (CountingJSON.parses, [H_OPS[o] for o in ops]))
            # same object / same error
            if first[0] == 'ok' and len(body) != 0:
                if out[0] != 'ok' or out[1] is not first[1]:
                    return fail(lambda: 'op#%d returned %r, first parse gave %r' % (k, out, first))
            elif first[0] == 'malformed':
                if out[0] != 'malformed':
                    return fail(lambda: 'op#%d after a malformed body: %r' % (k, out))
            else:
                # empty body: the default when one is given, else the not-found error
                if op == 1:
                    if out != ('ok', DEFAULT):
                        return fail(lambda: 'op#%d empty body with a default: %r' % (k, out))
                elif out[0] != 'notfound':
                    return fail(lambda: 'op#%d empty body without a default: %r' % (k, out))
    return 1


# ---------------------------------------------------------------- partitions
def _part(name, args, pre, call, timeout, bounds):
    src = '''
def h(%s) -> int:
    """
%s    post: _ != 0
    """
    return %s
''' % (args, ''.join('    pre: %s\n' % p for p in pre), call)
    return {'name': name, 'fn': 'h', 'src': src, 'timeout': timeout, 'bounds': bounds}


def partitions(tier, seed):
    P = []
    q = tier == 'quick'
    scls = [('plain', '32 <= ord(s) <= 126 and s not in (chr(34), chr(92))'), ('escape', 's in (chr(34), chr(92)) or ord(s) < 32'),
            ('bmp', '127 <= ord(s) <= 0xFFFF'), ('astral', 'ord(s) > 0xFFFF')]
    for asgi in (0, 1):
        tag = 'asgi' if asgi else 'wsgi'
        # parse-once histories on arbitrary bodies (valid, truncated, wrong encoding): bytes symbolic
        hists = [(0, 0), (0, 2), (2, 0), (1, 0), (0, 1), (1, 2), (1, 1, 0), (0, 1, 2)] if q else \
                [(a, b) for a in range(3) for b in range(3)] + [(a, b, c) for a in range(3) for b in range(3) for c in range(3)]
        for i, ops in enumerate(hists):
            if q and (i + asgi) % 2:
                continue
            for L in ((0, 1, 2) if q else (0, 1, 2, 3)):
                P.append(_part('once_%s_%s_len%d' % (tag, ''.join(map(str, ops)), L), 'body: bytes, counting: bool', ['len(body) == %d' % L],
                               'history_case(%d, body, %r, counting)' % (asgi, tuple(ops)), 200 if q else 900,
                               '%s request with ANY body of %d bytes (valid JSON, truncated, invalid UTF-8 ...), history %s: at most one parse / '
                               'stream read, same object or same 4xx error afterwards, empty -> not-found or the default' % (
                                   tag.upper(), L, [H_OPS[o] for o in ops])))
        # round trips
        for shape in (1, 5):
            P.append(_part('roundtrip_%s_shape%d' % (tag, shape), 'n: int, b: bool, ci: int, cut: int', ['0 <= ci <= 2', '-1 <= cut <= 3', '-3 <= n <= 12'],
                           "roundtrip_case(%d, %d, '', n, b, ci, cut)" % (asgi, shape), 200 if q else 600,
                           'round trip of int/bool/None documents (shape %d; ints -3..12: str() realizes them), content type menu, request chunk cut' % shape))
        for ci_, (cname, cpre) in enumerate(scls):
            for shape in ((0, 3) if q else (0, 2, 3, 4)):
                if q and (ci_ + shape + asgi) % 2:
                    continue
                P.append(_part('roundtrip_%s_shape%d_%s' % (tag, shape, cname), 's: str, ci: int', ['len(s) == 1', cpre, '0 <= ci <= 2'],
                               'roundtrip_case(%d, %d, s, 7, True, ci, -1)' % (asgi, shape), 250 if q else 900,
                               'round trip of a document of shape %d whose string leaf is one free character of class "%s"; content type menu' % (shape, cname)))
        P.append(_part('reassign_%s' % tag, 'dict_shape: bool, n: int, early: bool, how: int, form: bool',
                       ['0 <= n <= 3', '0 <= how <= 2', 'dict_shape or not form'],
                       'reassign_case(%d, 3 if dict_shape else 2, n, early, how, form)' % asgi, 200,
                       'resp.media assigned, optionally rendered early, then assigned again (same object mutated in place / equal copy / '
                       'other document); JSON list or dict, URL-encoded dict: the final body is the last assignment'))
        P.append(_part('encodings_%s' % tag, 'di: int, ei: int, bi: int',
                       ['0 <= di < %d' % len(ENC_DOCS), '0 <= ei < %d' % len(ENC_NAMES), '0 <= bi < %d' % len(ENC_BOMS)],
                       'encoding_case(%d, pick(di, 0, %d), pick(ei, 0, %d), pick(bi, 0, %d))' % (asgi, len(ENC_DOCS) - 1, len(ENC_NAMES) - 1, len(ENC_BOMS) - 1),
                       200, 'JSON request body = one of %d documents encoded as %r behind one of %d byte-order marks (finite table chosen by the '
                       'solver): parsed iff it is a UTF-8 JSON text, the malformed-media 400 otherwise' % (len(ENC_DOCS), ENC_NAMES, len(ENC_BOMS))))
        P.append(_part('form_%s' % tag, 'k1: int, v1: str, v2: str', ['0 <= k1 <= 2', 'len(v1) <= 1 and len(v2) <= 1', 'all(ord(c) < 128 for c in v1 + v2)' if q else 'True'],
                       'form_case(%d, k1, v1, v2)' % asgi, 250 if q else 900, 'URL-encoded form round trip: key from a menu, two values of <= 1 free character'))
    return P
