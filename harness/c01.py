"""C01 -- the compiled router resolves every path exactly as the URI-template tree dictates.

Real code: falcon.routing.compiled.CompiledRouter.add_route / find / _compile /
_generate_ast / the exec'd finder, falcon.routing.converters (int, path).
Oracle: an independent trie built from the templates accepted by a clean run,
walked depth-first (literal < multi-field < single-field, backtracking,
converter veto, trailing path converter).  Histories: differential -- a router
built with rejected add_route() calls interleaved must behave like the router
built without them.
"""
import engine.loader as _l
_l.install()

import re  # noqa: E402

from falcon.routing.compiled import CompiledRouter  # noqa: E402

from engine.rt import fail, notrace, pick  # noqa: E402

PROPERTY = 'C01'
UNITS = ['falcon.routing.compiled.CompiledRouter.add_route', 'CompiledRouter.find', 'CompiledRouter._compile',
         'CompiledRouter._generate_ast', 'CompiledRouter._generate_conversion_ast', 'the generated find() function',
         'falcon.routing.converters.IntConverter.convert', 'falcon.routing.converters.PathConverter.convert']
STUBS = [
    'request paths are built as "/" + s1 [+ "/" + s2 [+ "/" + s3]] from symbolic segments without "/" (depth is the shape)',
    'the oracle int converter follows the documented rule: no surrounding white space, Python int() must accept the fragment, '
    'num_digits/min/max honoured',
    'paths on which two multi-field siblings both match (order among equal-kind siblings is not specified by the property) '
    'are skipped',
    'routers are (re)built concretely inside every path; only find() sees symbolic data',
]
OUTSIDE = ['segments longer than the per-shape bound (2-4 characters)', 'route sets beyond the enumerated menu',
           'custom converters; uuid / dt converter internals (C level or strptime); the float converter beyond its finite table', 'more than 3 path segments']
BUDGET = {'quick': 420, 'thorough': 900}

FIELD = re.compile(r'{([^}:]*)(?::([^}(]*)(?:\(([^}]*)\))?)?}')


class Res:
    def __init__(self, t):
        self.t = t

    def on_get(self, req, resp, **kw):
        pass


class Node:
    def __init__(self, seg):
        self.seg = seg
        self.children = []
        self.template = None
        ms = list(FIELD.finditer(seg))
        if not ms:
            self.kind = 'lit'
        elif len(ms) == 1 and ms[0].span() == (0, len(seg)):
            self.kind = 'simple'
        else:
            self.kind = 'complex'
        self.fields = [(m.group(1), m.group(2), m.group(3)) for m in ms]
        if self.kind == 'complex':
            pat = ''
            pos = 0
            for m in ms:
                pat += re.escape(seg[pos:m.start()]) + '(?P<%s>.+)' % m.group(1)
                pos = m.end()
            pat += re.escape(seg[pos:])
            self.rx = re.compile('^' + pat + '$')


def conv(cname, arg, frag):
    """reference int converter -> (ok, value)"""
    if cname == 'int':
        if arg:
            nd = int(arg)
            if len(frag) != nd:
                return False, None
        if frag.strip() != frag:
            return False, None
        try:
            return True, int(frag)
        except ValueError:
            return False, None
    raise NotImplementedError(cname)


def build_trie(templates):
    roots = []
    for t in templates:
        nodes = roots
        segs = t.lstrip('/').split('/')
        for i, s in enumerate(segs):
            for n in nodes:
                if n.seg == s:
                    break
            else:
                n = Node(s)
                nodes.append(n)
            if i == len(segs) - 1:
                n.template = t
            nodes = n.children
    return roots


_RANK = {'lit': 0, 'complex': 1, 'simple': 2}


def walk(nodes, segs, i, params, rev):
    if i >= len(segs):
        return None
    lits = [n for n in nodes if n.kind == 'lit']
    cx = [n for n in nodes if n.kind == 'complex']
    if rev:
        cx = cx[::-1]
    simple = [n for n in nodes if n.kind == 'simple']
    for n in lits + cx + simple:
        p = dict(params)
        if n.kind == 'lit':
            if segs[i] != n.seg:
                continue
        elif n.kind == 'complex':
            m = n.rx.match(segs[i])
            if not m:
                continue
            ok = True
            for name, cname, arg in n.fields:
                v = m.group(name)
                if cname:
                    good, v = conv(cname, arg, v)
                    if not good:
                        ok = False
                        break
                p[name] = v
            if not ok:
                continue
        else:
            name, cname, arg = n.fields[0]
            if cname == 'path':
                if n.template is not None:
                    p[name] = '/'.join(segs[i:])
                    return (n.template, p)
                continue
            v = segs[i]
            if cname:
                good, v = conv(cname, arg, v)
                if not good:
                    continue
            p[name] = v
        if i == len(segs) - 1 and n.template is not None:
            return (n.template, p)
        r = walk(n.children, segs, i + 1, p, rev)
        if r is not None:
            return r
    return None


_CACHE = {}


def make_router(history, compile_each=False, find_before_last=False, find_before_each=False):
    """Concrete set-up, done once per worker process and outside CrossHair's tracing."""
    key = (tuple(history), compile_each, find_before_last, find_before_each)
    if key not in _CACHE:
        with notrace():
            r, acc, rej = _make_router(history, compile_each, find_before_last, find_before_each)
            r.find('/')  # what the first request does: compile the finder (raises if the tree is corrupt)
            _CACHE[key] = (r, acc, rej, build_trie(acc))
    return _CACHE[key]


def _make_router(history, compile_each=False, find_before_last=False, find_before_each=False):
    """history: list of templates; -> (router, accepted list, rejected list)."""
    r = CompiledRouter()
    acc, rej = [], []
    for k, t in enumerate(history):
        if (find_before_last and k == len(history) - 1) or (find_before_each and k > 0):
            r.find('/')  # forces a compile: the next add must invalidate the stale finder
        try:
            if compile_each:
                r.add_route(t, Res(t), compile=True)
            else:
                r.add_route(t, Res(t))
            acc.append(t)
        except ValueError:  # UnacceptableRouteError is a ValueError
            rej.append(t)
    return r, acc, rej


def _result(found):
    if found is None:
        return None
    return (found[3], found[2])


def route_case(templates, segs, variant):
    """find(path) on a router built from `templates` == trie walk.  variant: 0 plain, 1 compile=True, 2 stale finder."""
    for s in segs:
        if '/' in s:
            return 2
    path = '/' + '/'.join(segs)
    router, acc, rej, trie = make_router(templates, compile_each=(variant == 1), find_before_last=(variant == 2),
                                         find_before_each=(variant == 3))
    parts = path.lstrip('/').split('/')
    e1 = walk(trie, parts, 0, {}, False)
    e2 = walk(trie, parts, 0, {}, True)
    if e1 != e2:
        return 2  # ambiguous between equal-kind siblings
    got = _result(router.find(path))
    if got != e1:
        return fail(lambda: 'routes %r: find(%r) = %r, tree walk gives %r' % (acc, path, got, e1))
    return 1


def history_case(clean, rejected, pos, later, segs, variant):
    """A rejected template added at position `pos` must not change anything: same acceptance of the later
    templates, same lookups, no internal error."""
    for s in segs:
        if '/' in s:
            return 2
    path = '/' + '/'.join(segs)
    hist = list(clean[:pos]) + [rejected] + list(clean[pos:]) + list(later)
    base = list(clean) + list(later)
    r1, acc1, rej1, _t1 = make_router(hist, compile_each=(variant == 1), find_before_last=(variant == 2),
                                      find_before_each=(variant == 3))
    r0, acc0, rej0, trie = make_router(base)
    if rejected in acc1:
        # the template is acceptable in this context: not a rejection scenario
        return 2
    if acc1 != acc0:
        return fail(lambda: 'after the rejected add_route(%r) the accepted routes are %r instead of %r' % (rejected, acc1, acc0))
    g1 = _result(r1.find(path))
    g0 = _result(r0.find(path))
    if g1 != g0:
        return fail(lambda: 'after the rejected add_route(%r): find(%r) = %r, without it %r' % (rejected, path, g1, g0))
    parts = path.lstrip('/').split('/')
    e1 = walk(trie, parts, 0, {}, False)
    if e1 == walk(trie, parts, 0, {}, True) and g1 != e1:
        return fail(lambda: 'routes %r: find(%r) = %r, tree walk gives %r' % (acc0, path, g1, e1))
    return 1


# ---------------------------------------------------------------- float converter (finite table)
FLOAT_ARGS = [('', None, None, True), ('(min=0)', 0, None, True), ('(max=100)', None, 100, True), ('(min=0, max=100)', 0, 100, True),
              ('(finite=False)', None, None, False), ('(min=0, finite=False)', 0, None, False), ('(max=100, finite=False)', None, 100, False),
              ('(min=0, max=100, finite=False)', 0, 100, False), ('(min=-1.5, max=1.5)', -1.5, 1.5, True)]
FLOAT_SEGS = ['1.5', '-2', '0', '-0.0', '100', '100.0000001', '-1.5', '1e2', '1e400', '-1e400', 'inf', '-inf', 'Infinity', '-infinity', 'nan',
              ' 1', '1 ', '1_0', 'x', '1.5.1', '0x10', '+3', '.5', '5.']
_FROUTERS = {}


def float_case(ai, si):
    """/c/{v:float<args>} against the documented converter rule: float() must accept the fragment, no surrounding white
    space, finite unless finite=False, min/max inclusive (the comparison decides, so nan passes a bound)."""
    import math
    argsrc, mn, mx, finite = FLOAT_ARGS[ai]
    seg = FLOAT_SEGS[si]
    if ai not in _FROUTERS:
        with notrace():
            r = CompiledRouter()
            r.add_route('/c/{v:float%s}' % argsrc, Res('float'))
            r.find('/')
            _FROUTERS[ai] = r
    exp = None
    if seg.strip() == seg:
        try:
            v = float(seg)
            exp = v
        except ValueError:
            pass
    if exp is not None and finite and not math.isfinite(exp):
        exp = None
    if exp is not None and ((mn is not None and exp < mn) or (mx is not None and exp > mx)):
        exp = None
    with notrace():
        found = _FROUTERS[ai].find('/c/' + seg)
    got = None if found is None else found[2].get('v')
    same = (got is None and exp is None) or (got is not None and exp is not None and (got == exp or (got != got and exp != exp)))
    if not same:
        return fail(lambda: "route '/c/{v:float%s}': find('/c/%s') gives v=%r, the documented converter rule gives %r" % (argsrc, seg, got, exp))
    return 1


# ---------------------------------------------------------------- menus
ROUTE_SETS = [
    # each mechanism named in the anchors at least once
    ['/a', '/{x}', '/v{y}-{z}', '/a/b', '/{x}/b', '/v{y}-{z}/{s}', '/{x}/{t}.{u}'],     # static < complex < simple + backtracking
    ['/a/{s}', '/{x}/b', '/v{y}-{z}/b'],                                                  # backtrack out of a literal branch
    ['/{n:int}', '/{n:int}/b', '/a/{p:path}', '/{k:int(2)}x{w}/{s}'],                     # converters, path converter
    ['/a/{m:int}', '/a/{t}.{u}', '/a/b', '/{x}/{p:path}'],
    ['/{a:int}-{b}/{c:int}-{d}', '/{a:int}-{b}/{e}'],                                     # two complex+converter levels
    ['/{k:int(2)}x{w}', '/v{y}-{z}/{m:int}', '/{k:int(2)}x{w}/{t}.{u}', '/{k:int(2)}x{w}/b'],
    ['/{n:int}/{p:path}', '/v{y}-{z}', '/a/{m:int}', '/{n:int}'],
    ['/a/{x}/c', '/a/b/{y}', '/{z}/b/c'],                                                 # depth-3 backtracking, param isolation
    ['/a/{x}/c', '/a/{x}/{w:int}', '/{z}/{q}/d'],
    ['/{x}/{y}', '/a/{m:int(1)}', '/a/b/c', '/{x}/{y}/{p:path}'],
    ['/v{y}-{z}/{p:path}', '/{n:int}/{p:path}', '/a'],
    ['/{x}', '/{x}/{y}', '/{x}/{y}/{z}'],
    ['/a', '/a/a', '/a/a/a', '/{x}/a/{y}'],
    ['/{i:int(1)}{r}', '/{i:int(1)}{r}/{j:int}', '/a{q}'],
    ['/a/{x}/c', '/a/b/{y}', '/a/{x}', '/a'],                 # prefixes added after their extensions: the last adds only fill interior nodes
    ['/{a:int}-{b:int}/{c:int}', '/v/{m:int}/{lo:int}..{hi}', '/{a:int}-{b:int}'],    # several converters in one segment, then a converted simple field
    ['/f/r.p/m', '/f/{n}.p', '/f/{n}.q/z', '/g/k/x', '/g/{a}-{b}'],     # literal + multi-field siblings only: dead-ending literal must backtrack
]

# templates that must be rejected in the given context (context = ROUTE_SETS[ci]); each with later legal adds
REJECT_CASES = [
    # (clean, rejected, later)
    (['/a/b', '/{x}'], '/{q}/x/{y:path}/e', ['/{z}/w']),            # finding 1: conflicting var + path with children
    (['/a'], '/k/v{y:path}', ['/k/{m}']),                             # finding 2: path converter inside a complex segment
    (['/files/index'], '/files/{rest:path}/meta', ['/files/{name}']),
    (['/a/{x}'], '/a/{y}', ['/a/{x}/b']),                             # conflicting simple vars
    (['/v{y}-{z}'], '/v{a}-{b}', ['/v{y}-{z}/c']),                    # equal complex skeletons
    (['/a'], '/b/{x}/{x}', ['/b/{x}']),                               # duplicate field
    (['/a'], '/b/{class}', ['/b/{c}']),                               # keyword field
    (['/a'], '/b/{x:nope}', ['/b/{x}']),                              # unknown converter
    (['/a'], '/b/{x:int(0)}', ['/b/{x:int(1)}']),                     # bad converter args
    (['/a'], '/b/ c', ['/b/c']),                                      # white space
    (['/a/{p:path}'], '/a/{p:path}/c', ['/a/b']),                     # children below an existing path converter
    (['/a/b/c'], '/a/b/{p:path}/d/e', ['/a/b/{p:path}']),
    (['/x/{a}/y'], '/x/{b}/z/{p:path}/q', ['/x/{a}/z']),
]


def _sym_args(lens):
    return ', '.join('s%d: str' % i for i in range(len(lens)))


def _sym_pre(lens):
    return ''.join("    pre: len(s%d) <= %d and '/' not in s%d\n" % (i, n, i) for i, n in enumerate(lens))


def _route_part(si, lens, variant, timeout):
    src = '''
def h(%s) -> int:
    """
%s    post: _ != 0
    """
    return route_case(ROUTE_SETS[%d], [%s], %d)
''' % (_sym_args(lens), _sym_pre(lens), si, ', '.join('s%d' % i for i in range(len(lens))), variant)
    return {'name': 'routes%02d_d%d_%s_v%d' % (si, len(lens), ''.join(map(str, lens)), variant), 'fn': 'h', 'src': src,
            'timeout': timeout,
            'bounds': 'route set %r; path of %d symbolic segments with lengths <= %s (any characters except "/"); build variant %s' % (
                ROUTE_SETS[si], len(lens), list(lens), ['plain', 'compile=True on every add', 'find() before the last add', 'find() between all adds'][variant])}


def shaped_case(templates, pieces, fields, variant):
    """pieces: per segment a list of literal strings / field indexes; fields: the symbolic field texts."""
    segs = []
    for seg in pieces:
        t = ''
        for x in seg:
            t = t + (fields[x] if isinstance(x, int) else x)
        segs.append(t)
    return route_case(templates, segs, variant)


def _shape_part(si, ti, variant, timeout, maxlen=2, extra_seg=False):
    """Paths shaped like template ti of route set si: literals fixed, every field a free string of 1..maxlen characters."""
    tmpl = ROUTE_SETS[si][ti]
    pieces = []
    nf = 0
    intf = []
    for seg in tmpl.lstrip('/').split('/'):
        cur = []
        pos = 0
        for m in FIELD.finditer(seg):
            if m.start() > pos:
                cur.append(seg[pos:m.start()])
            if m.group(2) == 'int':
                intf.append(nf)
            cur.append(nf)
            nf += 1
            pos = m.end()
        if pos < len(seg):
            cur.append(seg[pos:])
        pieces.append(cur)
    if extra_seg:
        pieces.append([nf])
        nf += 1
    if nf == 0:
        return None
    args = ', '.join('f%d: str' % i for i in range(nf))
    pre = ''.join("    pre: 1 <= len(f%d) <= %d and '/' not in f%d\n" % (i, maxlen, i) for i in range(nf))
    # fields feeding the int converter: ASCII digits or the letter x (int() on arbitrary symbolic text is very slow)
    pre += ''.join("    pre: all(('0' <= c <= '9') or c == 'x' for c in f%d)\n" % i for i in intf)
    src = '''
def h(%s) -> int:
    """
%s    post: _ != 0
    """
    return shaped_case(ROUTE_SETS[%d], %r, [%s], %d)
''' % (args, pre, si, pieces, ', '.join('f%d' % i for i in range(nf)), variant)
    return {'name': 'shaped%02d_t%d%s_v%d' % (si, ti, 'x' if extra_seg else '', variant), 'fn': 'h', 'src': src, 'timeout': timeout,
            'bounds': 'route set %r; paths shaped like %r%s: literals fixed, each of the %d fields any string of 1..%d characters '
                      'without "/" (int-converter fields: digits or x); variant %d' % (ROUTE_SETS[si], tmpl, ' plus one extra segment' if extra_seg else '', nf, maxlen, variant)}


def _hist_part(ci, pos, lens, variant, timeout):
    clean, rejected, later = REJECT_CASES[ci]
    src = '''
def h(%s) -> int:
    """
%s    post: _ != 0
    """
    c, r, l = REJECT_CASES[%d]
    return history_case(c, r, %d, l, [%s], %d)
''' % (_sym_args(lens), _sym_pre(lens), ci, pos, ', '.join('s%d' % i for i in range(len(lens))), variant)
    return {'name': 'reject%02d_p%d_d%d_v%d' % (ci, pos, len(lens), variant), 'fn': 'h', 'src': src, 'timeout': timeout,
            'bounds': 'history: %r with the rejected template %r inserted at position %d, then %r; differential against the '
                      'history without it; path of %d symbolic segments (lengths <= %s); variant %d' % (
                          clean, rejected, pos, later, len(lens), list(lens), variant)}


def partitions(tier, seed):
    P = []
    q = tier == 'quick'
    depth_lens = {1: (4,), 2: (3, 3), 3: (2, 2, 2)} if q else {1: (6,), 2: (4, 4), 3: (3, 3, 3)}
    for si, rs in enumerate(ROUTE_SETS):
        for ti in range(len(rs)):
            for v in ((0,) if q else (0, 1, 2)):
                sp = _shape_part(si, ti, v, 120 if q else 600, maxlen=2 if q else 3)
                if sp:
                    P.append(sp)
            if not q:
                sp = _shape_part(si, ti, 0, 600, maxlen=2, extra_seg=True)
                if sp:
                    P.append(sp)
    P.append({'name': 'float_converter', 'fn': 'h', 'timeout': 120, 'src': '''
def h(ai: int, si: int) -> int:
    \"\"\"
    pre: 0 <= ai < %d and 0 <= si < %d
    post: _ != 0
    \"\"\"
    return float_case(pick(ai, 0, %d), pick(si, 0, %d))
''' % (len(FLOAT_ARGS), len(FLOAT_SEGS), len(FLOAT_ARGS) - 1, len(FLOAT_SEGS) - 1),
              'bounds': 'float converter: %d argument combinations (min / max / finite) x %d path fragments (signs, exponents, overflow to inf, '
                        'inf / nan spellings, white space, underscores, hex, malformed) -- finite table chosen by the solver, executed '
                        'concretely (float() realizes its argument at the C boundary)' % (len(FLOAT_ARGS), len(FLOAT_SEGS))})
    for ci, (clean, rejected, later) in enumerate(REJECT_CASES):
        positions = (len(clean),) if q else tuple(range(len(clean) + 1))
        for pos in positions:
            for v in ((0,) if q else (0, 1, 2)):
                d = 2 if q else 3
                P.append(_hist_part(ci, pos, depth_lens[d] if not q else (2, 2), v, 120 if q else 600))
    for si, rs in enumerate(ROUTE_SETS):
        maxd = max(t.count('/') for t in rs)
        has_path = any(':path' in t for t in rs)
        for d in (1, 2, 3):
            if d > maxd and not (has_path and d == maxd + 1):
                continue
            if q and d == 1 and si not in (0, 2, 5, 13, 14):
                continue
            variants = (0,) if q else (0, 1, 2, 3)
            if q and si in (0, 4, 7):
                variants = (0, 2) if d == maxd else (0,)
            if q and si == 14:
                variants = (3,)
            for v in variants:
                P.append(_route_part(si, depth_lens[d], v, 120 if q else 900))
    return P
