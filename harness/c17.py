"""C17 -- WebSocket sessions follow the ASGI state machine and report misuse and errors.

Real code: whole falcon.asgi.App WebSocket sessions: App._handle_websocket, falcon.asgi.ws.WebSocket (all public
coroutines), error -> close-code mapping, on the deterministic MiniLoop.  Responder scripts are the shapes; the
close code, the point at which the server's send() raises, the ASGI spec version, the client script variant and
(with a receive queue) the delivery schedule are symbolic.
Oracle: an independent ASGI WebSocket monitor over the events sent + deterministic (state, operation) -> error
table + expected close codes + payload order.
"""
import engine.loader as _l
_l.install()

import asyncio  # noqa: E402
import collections  # noqa: E402

import falcon  # noqa: E402
import falcon.asgi  # noqa: E402
from falcon import errors  # noqa: E402

from engine.envmodels import MiniLoop, running_loop  # noqa: E402
from engine.rt import fail, notrace  # noqa: E402
from engine.driver import known_findings as _kf  # noqa: E402

LISTED = set(_kf()[0].get('C17', {}))

PROPERTY = 'C17'
UNITS = ['falcon.asgi.app.App._handle_websocket/_handle_exception(ws=...)/_ws_* error handlers', 'falcon.asgi.ws.WebSocket.accept/close/'
         'send_text/send_data/send_media/receive_text/receive_data/receive_media/_send/_receive/_require_accepted',
         'falcon.asgi.ws._BufferedReceiver', 'falcon.asgi.ws.http_status_to_ws_code']
STUBS = [
    'event loop = MiniLoop; the ASGI server is the harness: scripted client events, then a disconnect so that a blocked receive resolves',
    'apps are built once per worker outside tracing; the responder reads its script from a table',
    'error classes are compared only where the state is independent of timing (before accept, after close, double accept, invalid close '
    'code, wrong payload type); operations racing with a client disconnect may raise WebSocketDisconnected or succeed',
]
OUTSIDE = ['msgpack binary media (not installed)', 'scripts longer than 4 operations (plus a few send-only scripts of up to 7)', 'custom WebSocket error handlers beyond one']
BUDGET = {'quick': 300, 'thorough': 900}

OPS = {0: 'accept', 1: 'close', 2: 'send_text', 3: 'receive_text', 4: 'raise HTTPNotFound', 5: 'raise ValueError', 6: 'close(code)',
       7: "accept(subprotocol)", 8: 'send_data', 9: 'receive_data', 10: 'send_media', 11: 'receive_media', 12: 'yield',
       13: 'raise HTTPStatus', 14: 'return', 15: 'send_text (errors propagate)', 16: 'receive_text (errors propagate)', 17: 'send_data(bytearray), buffer reused'}
LAST = {}      # the loop of the last session and the tasks it left unfinished (read by C18's app-level check)
SCRIPT = {'ops': (), 'code': 1000}
LOG = []
PULLED = [0]   # client messages falcon has pulled from the server so far (updated by the harness)


class _Res:
    async def on_websocket(self, req, ws):
        for i, op in enumerate(SCRIPT['ops']):
            try:
                if op == 0:
                    await ws.accept()
                elif op == 1:
                    await ws.close()
                elif op == 2:
                    await ws.send_text('hi')
                elif op == 3:
                    LOG.append(('got', 'text', await ws.receive_text()))
                elif op == 4:
                    raise falcon.HTTPNotFound()
                elif op == 5:
                    raise ValueError('x')
                elif op == 6:
                    await ws.close(SCRIPT['code'])
                elif op == 7:
                    await ws.accept(subprotocol='chat')
                elif op == 8:
                    await ws.send_data(b'\x01')
                elif op == 9:
                    LOG.append(('got', 'data', await ws.receive_data()))
                elif op == 10:
                    await ws.send_media({'m': 1})
                elif op == 11:
                    LOG.append(('got', 'media', await ws.receive_media()))
                elif op == 12:
                    await asyncio.sleep(0)
                elif op == 17:
                    buf = bytearray(b'\x05\x06')
                    await ws.send_data(buf)
                    buf[0] = 0x7f          # the responder reuses its buffer: what was sent must not change
                elif op == 15:
                    await ws.send_text('hi')
                elif op == 16:
                    LOG.append(('got', 'text', await ws.receive_text()))
                elif op == 13:
                    raise falcon.HTTPStatus(falcon.HTTP_202)
                elif op == 14:
                    return
                LOG.append(('ok', i))
            except errors.WebSocketDisconnected as e:
                if op in (15, 16):
                    raise     # falcon's default handler for an unhandled WebSocketDisconnected takes over
                LOG.append(('raised', i, type(e).__name__, PULLED[0]))
            except (errors.OperationNotAllowed, errors.WebSocketDisconnected, errors.PayloadTypeError) as e:
                LOG.append(('raised', i, type(e).__name__, PULLED[0]))
            except ValueError as e:
                if op == 6:
                    LOG.append(('raised', i, 'ValueError'))
                else:
                    raise


class _NoWs:
    async def on_get(self, req, resp):
        pass


_APPS = {}


def _app(queue):
    if queue not in _APPS:
        with notrace():
            app = falcon.asgi.App()
            app.ws_options.max_receive_queue = queue
            app.add_route('/ws', _Res())
            app.add_route('/nows', _NoWs())
            _APPS[queue] = app
    return _APPS[queue]


VERSIONS = ['2.0', '2.1', '2.3', '2.4']
CLIENT = [[], [('text', 'a')], [('bytes', b'\x02')], [('text', 'a'), ('text', 'b')], [('text', '{"j": 1}')], [('text', 'a'), ('bytes', b'\x03')]]


def session(ops, code, queue, ver_idx, ci, fail_send, path_i, choices, burst=0):
    """-> (events sent incl. '#lost' marker, LOG copy, exception escaping the app or None)"""
    SCRIPT['ops'] = tuple(ops)
    SCRIPT['code'] = code
    del LOG[:]
    PULLED[0] = 0
    app = _app(queue)
    loop = MiniLoop()
    sent = []
    inbox = collections.deque([{'type': 'websocket.connect'}])
    for kind, payload in CLIENT[ci]:
        inbox.append({'type': 'websocket.receive', kind: payload})
    inbox.append({'type': 'websocket.disconnect', 'code': 1001})
    pending = []
    arrived = collections.deque()     # events that reached the server while nobody was receiving (burst > 0 only)
    st = {'sends': 0, 'ci': 0, 'lost_handle': None}

    async def receive():
        if arrived:
            # a server with its own inbound queue (e.g. asyncio.Queue.get()) hands a waiting event over without yielding
            ev = arrived.popleft()
            if ev['type'] == 'websocket.receive':
                PULLED[0] += 1
            if ev['type'] == 'websocket.disconnect':
                sent.append({'type': '#lost'})
            return ev
        f = loop.create_future()
        pending.append(f)
        return await f

    async def send(ev):
        st['sends'] += 1
        if fail_send and st['sends'] == fail_send:
            sent.append({'type': '#sendfail', 'of': ev['type']})
            raise OSError('broken pipe')
        sent.append(ev)
    path = ['/ws', '/nowhere', '/nows'][path_i]
    scope = {'type': 'websocket', 'asgi': {'version': '3.0', 'spec_version': VERSIONS[ver_idx]}, 'http_version': '1.1', 'scheme': 'ws',
             'path': path, 'raw_path': path.encode(), 'query_string': b'', 'root_path': '', 'headers': [(b'host', b'x')],
             'client': ('127.0.0.1', 1), 'server': ('x', 80), 'subprotocols': ['chat']}
    escaped = None
    with running_loop(loop):
        t = loop.create_task(app(scope, receive, send))
        guard = 0
        while not t.done():
            guard += 1
            if guard > 800:
                return sent, list(LOG), 'livelock'
            can_deliver = bool(pending) and bool(inbox)
            can_step = bool(loop._ready)
            if can_deliver and can_step:
                c = choices[st['ci']] if st['ci'] < len(choices) else True
                st['ci'] += 1
            elif can_deliver:
                c = True
            elif can_step:
                c = False
            else:
                return sent, list(LOG), 'blocked'
            if c:
                f = pending.pop(0)
                if not f.cancelled():
                    ev = inbox.popleft()
                    before = len(loop._ready)
                    f.set_result(ev)
                    if ev['type'] == 'websocket.receive':
                        PULLED[0] += 1
                    if ev['type'] == 'websocket.disconnect':
                        # falcon knows about the disconnect once the task awaiting this receive() has been resumed
                        if len(loop._ready) > before:
                            st['lost_handle'] = loop._ready[-1]
                        else:
                            sent.append({'type': '#lost'})
                    # the next `burst` client events arrive back-to-back with this one
                    for _ in range(burst):
                        if inbox and ev['type'] != 'websocket.connect':
                            arrived.append(inbox.popleft())
            else:
                h = loop.run_one()
                if h is st['lost_handle']:
                    # ... unless that task was cancelled meanwhile (close() stops the reader): then nobody ever sees the event
                    task = getattr(h._callback, '__self__', None)
                    cancelled = task is not None and (task.cancelled() or (hasattr(task, 'cancelling') and task.cancelling() > 0))
                    if not cancelled:
                        sent.append({'type': '#lost'})
                    else:
                        sent.append({'type': '#unseen-disconnect'})
        LAST['drained'] = loop.drain()
        LAST['leftover'] = [getattr(x.get_coro(), '__qualname__', repr(x)) for x in loop.leftover_tasks()]
        try:
            t.result()
        except OSError as e:
            escaped = 'OSError'
        except Exception as e:  # noqa
            escaped = type(e).__name__
    return sent, list(LOG), escaped


def monitor(sent, ver):
    """-> None if the event sequence is a legal ASGI WebSocket session, else a description."""
    state = 'handshake'
    accepts = closes = 0
    for ev in sent:
        t = ev['type']
        if t == '#lost':
            if state != 'closed':
                state = 'lost'
            continue
        if t == '#sendfail':
            if ev.get('of') == 'websocket.close' and 'close-send-failure-retried' in LISTED:
                continue   # known finding: a failed close is retried (close() does not translate the server error)
            state = 'lost' if state != 'closed' else state
            continue
        if t == '#unseen-disconnect':
            continue
        if state == 'closed':
            return 'event %r after close' % t
        if state == 'lost':
            return 'event %r after the connection was lost' % t
        if t == 'websocket.accept':
            accepts += 1
            if state != 'handshake' or accepts > 1:
                return 'accept in state %s' % state
            state = 'open'
        elif t == 'websocket.send':
            if state != 'open':
                return 'data sent in state %s' % state
            if ev.get('bytes') is not None and type(ev['bytes']) is not bytes:
                return 'binary payload handed to the server as %s, not bytes' % type(ev['bytes']).__name__
            if ev.get('text') is not None and type(ev['text']) is not str:
                return 'text payload handed to the server as %s, not str' % type(ev['text']).__name__
            if ev.get('bytes') is not None and ev['bytes'] not in (b'\x01', b'\x05\x06') and b'"m"' not in ev['bytes']:
                return 'binary payload %r is none of the payloads the responder sent' % (ev['bytes'],)
        elif t == 'websocket.close':
            closes += 1
            if 'reason' in ev and ver in ('2.0', '2.1'):
                return 'close reason sent to a spec %s server' % ver
            state = 'closed'
        else:
            return 'unknown event %r' % t
    return None


def session_case(ops, code, queue, ver_idx, ci, fail_send, path_i, choices, burst=0):
    sent, log, escaped = session(ops, code, queue, ver_idx, ci, fail_send, path_i, choices, burst)
    ctx = lambda: 'script=%r close_code=%r queue=%r spec=%s client=%r fail_send=%r path#%d schedule=%r -> events %r log %r escaped %r' % (  # noqa: E731
        [OPS[o] for o in ops], code, queue, VERSIONS[ver_idx], CLIENT[ci], fail_send, path_i, (choices, 'burst', burst),
        [(e['type'], e.get('code')) for e in sent], log, escaped)
    if escaped in ('livelock', 'blocked'):
        return fail(lambda: escaped + ': ' + ctx())
    if escaped is not None and not (escaped == 'OSError' and fail_send):
        return fail(lambda: 'exception escaped the app: ' + ctx())
    bad = monitor(sent, VERSIONS[ver_idx])
    if bad:
        return fail(lambda: bad + ': ' + ctx())
    real = [e for e in sent if not e['type'].startswith('#')]
    lost_before_end = any(e['type'] in ('#lost', '#sendfail', '#unseen-disconnect') for e in sent)
    closes = [e for e in real if e['type'] == 'websocket.close']
    # a close (or a 403 denial = close before accept) whenever the responder ended without closing and the client is still there
    if not lost_before_end and not closes:
        return fail(lambda: 'session ended without a close although the client was still connected: ' + ctx())
    # known finding: close(<invalid code>) stops the background reader before it validates the code; a later receive_* then
    # trips an internal assertion (-> error close code) instead of working or raising a documented error
    if queue > 0 and 'invalid-close-code-stops-reader' in LISTED:
        for i, op in enumerate(ops):
            if op == 6 and any(x[0] == 'raised' and x[1] == i and x[2] == 'ValueError' for x in log) and any(o in (3, 9, 11) for o in ops[i + 1:]):
                return 2
    media_trouble = any(o in (10, 11) for o in ops)
    # expected close codes when nothing interferes
    if not fail_send and not lost_before_end and closes and not media_trouble:
        got = closes[-1].get('code')
        want = None
        if path_i == 1:
            want = 3404
        elif path_i == 2:
            want = 3405
        else:
            # first terminating op of the script
            for i, op in enumerate(ops):
                ev_failed = any(x[0] == 'raised' and x[1] == i for x in log)
                if op in (1,) and not ev_failed:
                    want = 1000
                    break
                if op == 6 and not ev_failed:
                    want = code
                    break
                if op == 4:
                    want = 3404
                    break
                if op == 13:
                    want = 3202
                    break
                if op == 5:
                    want = 1011
                    break
                if op == 14:
                    want = 1000
                    break
            else:
                want = 1000
        if want is not None and got != want:
            return fail(lambda: 'close code %r, expected %r: ' % (got, want) + ctx())
    # deterministic misuse errors
    accepted = False
    closed = False
    for i, op in enumerate(ops):
        r = [x for x in log if x[0] in ('raised', 'ok') and x[1] == i]
        if not r:
            break   # the script ended earlier (raise / return)
        raised = r[0][2] if r[0][0] == 'raised' else None
        if op in (0, 7):
            if accepted or closed:
                if raised != 'OperationNotAllowed':
                    return fail(lambda: 'op#%d accept in the wrong state did not raise OperationNotAllowed (%r): ' % (i, raised) + ctx())
            elif raised is None:
                accepted = True
            elif not lost_before_end:
                return fail(lambda: 'op#%d first accept raised %r: ' % (i, raised) + ctx())
            else:
                break   # the connection was lost during the handshake: what follows depends on timing
        elif op in (2, 3, 8, 9, 10, 11):
            if not accepted and not closed:
                if raised != 'OperationNotAllowed':
                    return fail(lambda: 'op#%d %s before accept did not raise OperationNotAllowed (%r): ' % (i, OPS[op], raised) + ctx())
            elif closed:
                if raised != 'WebSocketDisconnected':
                    return fail(lambda: 'op#%d %s after close did not raise WebSocketDisconnected (%r): ' % (i, OPS[op], raised) + ctx())
        elif op == 6:
            invalid = code < 1000 or 1004 <= code <= 1006 or 1015 <= code <= 1999
            if invalid and raised != 'ValueError':
                return fail(lambda: 'op#%d close(%d) accepted an invalid close code (%r): ' % (i, code, raised) + ctx())
            if not invalid and raised is None:
                closed = True
        elif op == 1 and raised is None:
            closed = True
    # payloads arrive unchanged, in order, with the right type; a receiver is told about the disconnect only after the
    # messages that preceded it
    idx = 0
    client = CLIENT[ci]
    for x in log:
        if x[0] == 'raised' and x[2] == 'PayloadTypeError':
            idx += 1   # the message was consumed by the failing typed receive
        if x[0] == 'raised' and x[2] == 'WebSocketDisconnected' and ops[x[1]] in (3, 9, 11) and not fail_send:
            closed_before = any(ops[j] in (1, 6) for j in range(x[1]))
            if not closed_before and idx < x[3]:
                return fail(lambda: 'op#%d %s raised WebSocketDisconnected although %d client message(s) pulled by falcon were never '
                            'handed over: ' % (x[1], OPS[ops[x[1]]], x[3] - idx) + ctx())
        if x[0] != 'got':
            continue
        if idx >= len(client):
            return fail(lambda: 'received more messages than were sent: ' + ctx())
        kind, payload = client[idx]
        idx += 1
        if x[1] == 'text' and (kind != 'text' or x[2] != payload):
            return fail(lambda: 'receive_text returned %r for client message %r: ' % (x[2], (kind, payload)) + ctx())
        if x[1] == 'data' and (kind != 'bytes' or x[2] != payload):
            return fail(lambda: 'receive_data returned %r for client message %r: ' % (x[2], (kind, payload)) + ctx())
        if x[1] == 'media' and (kind != 'text' or x[2] != {'j': 1}):
            return fail(lambda: 'receive_media returned %r for client message %r: ' % (x[2], (kind, payload)) + ctx())
    return 1


def _known_close_retry():
    sent, log, escaped = session((0, 1), 1000, 0, 2, 0, 2, 0, [])
    types = [e['type'] for e in sent]
    again = '#sendfail' in types and 'websocket.close' in types[types.index('#sendfail'):]
    return again, ('the server\'s send() raises OSError for the websocket.close event: WebSocket.close() lets the raw error escape without '
                   'marking the connection closed, the error handler then sends a second websocket.close (1011) to the lost connection; '
                   'events: %r' % (types,))


def _known_invalid_close():
    sent, log, escaped = session((0, 6, 3), 0, 2, 2, 1, 0, 0, [False, False, True, False])
    codes = [e.get('code') for e in sent if e['type'] == 'websocket.close']
    return codes == [1011] and not any(x[0] == 'got' for x in log), (
        'buffered mode: ws.close(0) raises the documented ValueError but has already stopped the background reader; the following '
        'receive_text() dies on an internal AssertionError and the session is closed with the error code: log %r, close codes %r' % (log, codes))


KNOWN = {'close-send-failure-retried': _known_close_retry, 'invalid-close-code-stops-reader': _known_invalid_close}


# ---------------------------------------------------------------- partitions
def _part(ops, queue, nbits, timeout, path_i=0):
    bits = ''.join(', c%d: bool' % i for i in range(nbits))
    uses_code = 6 in ops
    src = '''
def h(%sver: int, ci: int, fail_send: int%s) -> int:
    """
    pre: 0 <= ver <= 3 and 0 <= ci < %d and 0 <= fail_send <= 3%s
    post: _ != 0
    """
    return session_case(%r, %s, %d, ver, ci, fail_send, %d, [%s])
''' % ('code: int, ' if uses_code else '', bits, len(CLIENT),
       '\n    pre: 995 <= code <= 1016 or 1998 <= code <= 2001 or code in (0, 2999, 3000, 4999, 5000)' if uses_code else '',
       tuple(ops), 'code' if uses_code else '1000', queue, path_i,
       ', '.join('c%d' % i for i in range(nbits)))
    return {'name': 'ws_q%d_p%d_%s' % (queue, path_i, '-'.join(str(o) for o in ops)), 'fn': 'h', 'src': src, 'timeout': timeout,
            'bounds': 'whole-app WebSocket session on path #%d, responder script %s, max_receive_queue=%d; close code around every validity boundary (995-1016, 1998-2001, 0, 2999, 3000, 4999, 5000: the reason lookup realizes it), ASGI spec '
                      'version 2.0-2.4, client script from a menu of %d (text/binary messages then disconnect), the k-th server send() raises '
                      '(k in 0..3), %d delivery-schedule decisions -- all symbolic' % (path_i, [OPS[o] for o in ops], queue, len(CLIENT), nbits)}


def partitions(tier, seed):
    P = []
    q = tier == 'quick'
    scripts = [(0, 2, 1), (0, 3, 6), (2, 0, 3), (0, 0, 2), (0, 1, 2), (0, 6, 3), (3, 0, 9), (0, 9, 3), (0, 11, 10), (7, 8, 1), (0, 4), (0, 5),
               (4,), (5,), (13,), (0, 13), (14,), (0, 14), (1, 0), (0, 12, 12, 3), (0, 3, 3), (0, 12, 3, 9), (6, 0), (0, 2, 5), (0, 10, 11)]
    if q:
        for i, s in enumerate(scripts):
            queue = (0, 2)[i % 2]
            P.append(_part(s, queue, 4 if queue else 2, 150))
        P.append(_part((0, 12, 12, 3, 3), 2, 5, 200))
        # a send-only responder while the receive queue fills up and the client leaves
        P.append(_part((0, 12, 12, 12, 2), 1, 8, 200))
        P.append(_part((0, 12, 12, 12, 12, 2), 2, 10, 250))
        P.append(_part((0, 17, 8), 0, 2, 100))
        P.append(_part((0, 17, 2), 2, 4, 150))
        P.append(_part((0, 12, 3, 12, 9), 4, 5, 200))
        P.append(_part((0, 1), 0, 1, 100, path_i=1))
        P.append(_part((0, 1), 2, 1, 100, path_i=2))
    else:
        import itertools
        for s in scripts:
            for queue in (0, 1, 4):
                P.append(_part(s, queue, 6 if queue else 2, 600))
        for s in itertools.product((0, 1, 2, 3, 6, 9, 12), repeat=3):
            P.append(_part(s, 2, 5, 600))
        for path_i in (1, 2):
            for queue in (0, 2):
                P.append(_part((0, 1), queue, 1, 200, path_i=path_i))
        for queue in (1, 2, 3):
            P.append(_part((0,) + (12,) * (queue + 2) + (2,), queue, 8 + 2 * queue, 600))
            P.append(_part((0,) + (12,) * (queue + 2) + (8, 1), queue, 8 + 2 * queue, 600))
            P.append(_part((0, 17, 8, 17), queue, 4, 300))
    return P
