"""C06 -- WSGI, ASGI and the test client are observationally equivalent.

L1 request objects: one symbolic header value (or raw path bytes / query string) -> falcon.Request and falcon.asgi.Request built by
   the harness's spec-faithful environ/scope builders; every accessor of the group must give the same value or the same 4xx class.
L2 whole apps: the same responder logic (C05's response space) on falcon.App and falcon.asgi.App -> same status, header set, body.
L3 test client: falcon.testing.simulate_request on the WSGI app == the harness WSGI driver.
"""
import engine.loader as _l
_l.install()

import falcon  # noqa: E402
import falcon.asgi  # noqa: E402
import falcon.testing as ft  # noqa: E402

import harness.c05 as c05  # noqa: E402
from engine.driver import known_findings as _kf  # noqa: E402
from engine.envmodels import asgi_call, make_environ, make_scope, wsgi_call  # noqa: E402
from engine.rt import fail, notrace, pick  # noqa: E402
from harness.c09 import GROUPS, _canon  # noqa: E402

PROPERTY = 'C06'
UNITS = ['falcon.request.Request.__init__ + accessors', 'falcon.asgi.request.Request.__init__ + accessors', 'falcon.app.App.__call__',
         'falcon.asgi.app.App.__call__', 'falcon.testing.helpers.create_environ', 'falcon.testing.client.simulate_request (WSGI)']
STUBS = [
    'environ / scope are produced by the harness builders from ONE request description (latin-1 tunnelled PATH_INFO, HTTP_* keys, '
    'byte header pairs, raw_path, query_string bytes) -- not by falcon.testing, which is itself under test in L3',
    'L2 reuses the response space and monitors of C05 (apps built once per worker outside tracing)',
]
OUTSIDE = ['the ASGI side of falcon.testing (ASGIConductor / async_to_sync spin a real event loop)', 'request bodies and media (C07, C12)',
           'header values longer than 3 characters']
BUDGET = {'quick': 300, 'thorough': 900}
LISTED = set(_kf()[0].get('C06', {}))

_LATIN1_WS = (0x1c, 0x1d, 0x1e, 0x1f, 0x85, 0xa0)


def _both(headers, path='/p', query='', port=8080, root=''):
    w = falcon.Request(make_environ(path=path, query=query, headers=headers, host='example.org', port=port, script_name=root))
    a = falcon.asgi.Request(make_scope(path=path, query=query.encode('latin-1'), headers=headers, host='example.org', port=port,
                                       root_path=root), None)
    return w, a


def _outcome(rd, req):
    try:
        return ('ok', _canon(rd(req)))
    except falcon.HTTPError as e:
        return ('err', e.status_code)


def header_eq_case(group, value, casing):
    for ch in value:
        if ord(ch) > 255:
            return 2
    name, readers = GROUPS[group]
    name = [name, name.lower(), name.upper()][casing]
    w, a = _both([(name, value)])
    for i, rd in enumerate(readers):
        ow, oa = _outcome(rd, w), _outcome(rd, a)
        if ow != oa:
            if group == 'content_length' and 'content-length-latin1-space' in LISTED:
                for ch in value:
                    if ord(ch) in _LATIN1_WS:
                        return 2   # known finding: int(str) strips Unicode white space, int(bytes) only ASCII white space
            return fail(lambda: '%s: %r -> accessor #%d WSGI %r, ASGI %r' % (name, value, i, ow, oa))
    return 1


def _known_cl():
    w, a = _both([('Content-Length', '0\x85')])
    rd = GROUPS['content_length'][1][0]
    ow, oa = _outcome(rd, w), _outcome(rd, a)
    return ow != oa, ("Content-Length: '0\\x85' (likewise 0x1c-0x1f, 0xa0 around the digits): WSGI req.content_length = 0 (int(str) strips Unicode "
                      "white space), ASGI raises 400 (int(bytes) strips ASCII white space only): %r vs %r" % (ow, oa))


KNOWN = {'content-length-latin1-space': _known_cl}

BASICS = [lambda r: r.method, lambda r: r.path, lambda r: r.query_string, lambda r: sorted(r.params.items()), lambda r: r.scheme,
          lambda r: r.host, lambda r: r.port, lambda r: r.netloc, lambda r: r.uri, lambda r: r.prefix, lambda r: r.relative_uri,
          lambda r: r.root_path, lambda r: r.remote_addr, lambda r: r.access_route, lambda r: r.forwarded_uri, lambda r: r.user_agent,
          lambda r: r.get_header('X-Custom'), lambda r: r.get_header('x-custom'), lambda r: sorted((k.lower(), v) for k, v in r.headers.items())]


def path_eq_case(raw, query, root_i, strip):
    """raw path BYTES (any byte, incl. invalid UTF-8) as the servers deliver them; query string text."""
    for ch in query:
        if ord(ch) > 127:
            return 2
    root = ['', '/api', '/a/b'][root_i]
    env = make_environ(path='/' + raw.decode('latin-1'), query=query, headers=[('X-Custom', 'v')], host='example.org', port=8080,
                       script_name=root)
    scope = make_scope(path='/' + raw.decode('utf-8', 'replace'), raw_path=b'/' + raw, query=query.encode('ascii'),
                       headers=[('X-Custom', 'v')], host='example.org', port=8080, root_path=root)
    ow_opts = falcon.RequestOptions()
    ow_opts.strip_url_path_trailing_slash = strip
    w = falcon.Request(env, options=ow_opts)
    a = falcon.asgi.Request(scope, None, options=ow_opts)
    for i, rd in enumerate(BASICS):
        ow, oa = _outcome(rd, w), _outcome(rd, a)
        if ow != oa:
            return fail(lambda: 'raw path %r query %r root %r: accessor #%d WSGI %r, ASGI %r' % (raw, query, root, i, ow, oa))
    return 1


# ---------------------------------------------------------------- L2
def _norm(res, asgi):
    if asgi:
        hs = sorted((k.decode('latin-1'), v.decode('latin-1')) for k, v in res.headers)
    else:
        hs = sorted((k.lower(), v) for k, v in res.headers)
    return res.status_code, hs, res.body


def app_eq_case(si, mi, has_text, has_data, has_media, stream_kind, set_cl, set_ct, text, data):
    if stream_kind == 3:
        return 2   # kind 3 means different things on the two interfaces in C05's menu
    out = []
    for asgi in (0, 1):
        app = c05._app(asgi)
        c05.BOX.update(si=si, has_text=has_text, text=text, has_data=has_data, data=data, has_media=has_media, stream_kind=stream_kind,
                       fail_at=0, set_cl=set_cl, set_ct=set_ct, cookie=True, stream=None)
        if asgi:
            res = asgi_call(app, make_scope(method=c05.METHODS[mi], path='/x'))
        else:
            res = wsgi_call(app, make_environ(method=c05.METHODS[mi], path='/x'))
        out.append(_norm(res, asgi))
    if out[0] != out[1]:
        return fail(lambda: 'same responder (status %r, %s, text=%r data=%r media=%r stream=%d cl=%r ct=%r):\n  WSGI %r\n  ASGI %r' % (
            c05.STATUSES[si], c05.METHODS[mi], text if has_text else None, data if has_data else None, has_media, stream_kind, set_cl,
            set_ct, out[0], out[1]))
    return 1


class _MwEq:
    def __init__(self, i, asgi):
        self.i = i

    def _req(self, req, resp):
        c = MWBOX['c'][self.i]
        if c == 1:
            resp.complete = True
            resp.text = 'short-%d' % self.i
        elif c == 2:
            raise falcon.HTTPForbidden(title='mw%d' % self.i)

    def _rsrc(self, req, resp, resource, params):
        if MWBOX['c'][self.i] == 3:
            resp.complete = True
            resp.text = 'rsrc-%d' % self.i

    def _resp(self, req, resp, resource, req_succeeded):
        resp.set_header('X-Stamp-%d' % self.i, 'ok' if req_succeeded else 'failed')


class _MwEqSync(_MwEq):
    def process_request(self, req, resp):
        self._req(req, resp)

    def process_resource(self, req, resp, resource, params):
        self._rsrc(req, resp, resource, params)

    def process_response(self, req, resp, resource, req_succeeded):
        self._resp(req, resp, resource, req_succeeded)


class _MwEqAsync(_MwEq):
    async def process_request(self, req, resp):
        self._req(req, resp)

    async def process_resource(self, req, resp, resource, params):
        self._rsrc(req, resp, resource, params)

    async def process_response(self, req, resp, resource, req_succeeded):
        self._resp(req, resp, resource, req_succeeded)


class _PlainRes:
    def on_get(self, req, resp):
        resp.text = 'responder'
    on_post = on_get


class _PlainARes:
    async def on_get(self, req, resp):
        resp.text = 'responder'
    on_post = on_get


MWBOX = {'c': (0, 0)}
_MWAPPS = {}


def _mw_app(asgi, indep):
    key = (asgi, indep)
    if key not in _MWAPPS:
        with notrace():
            cls = _MwEqAsync if asgi else _MwEqSync
            app = (falcon.asgi.App if asgi else falcon.App)(middleware=[cls(0, asgi), cls(1, asgi)], independent_middleware=bool(indep))
            app.add_route('/r', _PlainARes() if asgi else _PlainRes())
            MWBOX['c'] = (0, 0)
            if asgi:
                asgi_call(app, make_scope(path='/r'))
            else:
                wsgi_call(app, make_environ(path='/r'))
            _MWAPPS[key] = app
    return _MWAPPS[key]


def mw_eq_case(indep, c0, c1, mi, routed):
    """c0/c1: 0 pass, 1 complete in process_request, 2 raise HTTPForbidden in process_request, 3 complete in process_resource."""
    out = []
    method = ['GET', 'POST', 'HEAD'][mi]
    path = '/r' if routed else '/missing'
    for asgi in (0, 1):
        app = _mw_app(asgi, indep)
        MWBOX['c'] = (c0, c1)
        with notrace():
            if asgi:
                res = asgi_call(app, make_scope(method=method, path=path))
            else:
                res = wsgi_call(app, make_environ(method=method, path=path))
        out.append(_norm(res, asgi))
    if out[0] != out[1]:
        return fail(lambda: 'middleware actions %r, independent_middleware=%r, %s %s:\n  WSGI %r\n  ASGI %r' % ((c0, c1), bool(indep), method, path, out[0], out[1]))
    return 1


# ---------------------------------------------------------------- L3
class _Echo:
    def on_get(self, req, resp, tail):
        resp.media = {'path': req.path, 'tail': tail, 'qs': req.query_string, 'params': sorted(req.params.items()), 'h': req.get_header('X-V'),
                      'host': req.host, 'uri': req.uri}
    on_post = on_get


_CAPP = []


def client_eq_case(tail, query, hv, mi):
    for ch in tail:
        if ch in '/?#%' or ord(ch) > 126 or ord(ch) < 33:
            return 2
    for ch in query:
        if ord(ch) > 126 or ord(ch) < 33 or ch in '#%+':
            return 2
    for ch in hv:
        if ord(ch) > 126 or ord(ch) < 33:
            return 2
    if not _CAPP:
        with notrace():
            app = falcon.App()
            app.add_route('/e/{tail}', _Echo())
            ft.simulate_get(app, '/e/w')
            wsgi_call(app, make_environ(path='/e/w'))
            _CAPP.append(app)
    app = _CAPP[0]
    method = ['GET', 'POST'][mi]
    path = '/e/' + tail
    r1 = ft.simulate_request(app, method=method, path=path, query_string=query, headers={'X-V': hv} if hv else None)
    r2 = wsgi_call(app, make_environ(method=method, path=path, query=query, headers=[('X-V', hv)] if hv else []))
    if r1.status_code != r2.status_code or r1.content != r2.body:
        return fail(lambda: 'simulate_request(%s %r?%r, X-V=%r) -> %r %r; spec-faithful driver -> %r %r' % (
            method, path, query, hv, r1.status, r1.content, r2.status, r2.body))
    h1 = sorted((k.lower(), v) for k, v in r1.headers.items())
    h2 = sorted((k.lower(), v) for k, v in r2.headers)
    if h1 != h2:
        return fail(lambda: 'headers differ: client %r, driver %r' % (h1, h2))
    return 1


# ---------------------------------------------------------------- partitions
def _part(name, args, pre, call, timeout, bounds):
    src = '''
def h(%s) -> int:
    """
%s    post: _ != 0
    """
    return %s
''' % (args, ''.join('    pre: %s\n' % p for p in pre), call)
    return {'name': name, 'fn': 'h', 'src': src, 'timeout': timeout, 'bounds': bounds}


def partitions(tier, seed):
    P = []
    q = tier == 'quick'
    heavy = {'range', 'content_length', 'if_match', 'if_none_match', 'if_range', 'cookie'}
    for g in GROUPS:
        if g in ('date', 'if_modified_since', 'accept'):
            alpha = "'S, 0:G/*;q=.a'"
            P.append(_part('hdr_%s' % g, 'v: str, casing: int', ['len(v) <= 2', 'all(c in %s for c in v)' % alpha, '0 <= casing <= 2'],
                           'header_eq_case(%r, v, casing)' % g, 150 if q else 600, 'WSGI vs ASGI accessors of group %s: value <= 2 characters over %s' % (g, alpha)))
            continue
        L = 2 if (q and g in heavy) else 3
        P.append(_part('hdr_%s' % g, 'v: str, casing: int', ['len(v) <= %d' % L, '0 <= casing <= 2'], 'header_eq_case(%r, v, casing)' % g,
                       200 if q else 900,
                       'WSGI vs ASGI accessors of group %s for ANY latin-1 header value of <= %d characters (Host has an explicit port), '
                       'header-name casing symbolic: same value or same 4xx class' % (g, L)))
    for L in ((1, 2) if q else (1, 2, 3)):
        P.append(_part('path_len%d' % L, 'raw: bytes, query: str, root_i: int, strip: bool', ['len(raw) == %d' % L, 'len(query) <= 2', '0 <= root_i <= 2'],
                       'path_eq_case(raw, query, root_i, strip)', 250 if q else 900,
                       'raw request path of %d free BYTES (incl. invalid UTF-8) + query string <= 2 ASCII characters + root_path menu + '
                       'strip_url_path_trailing_slash: method/path/params/URL parts/headers equal on both Request classes' % L))
    P.append(_part('path_slashes', 'lead: bytes, k: int, root_i: int, strip: bool', ['len(lead) <= 1', '0 <= k <= 3', '0 <= root_i <= 2'],
                   "path_eq_case(lead + b'/' * pick(k, 0, 3), '', root_i, strip)", 150,
                   'request path = at most one free byte followed by 0..3 slashes (runs of trailing slashes) x strip_url_path_trailing_slash x '
                   'root_path menu: equal on both Request classes'))
    for indep in (0, 1):
        P.append(_part('app_middleware_%s' % ('independent' if indep else 'dependent'), 'c0: int, c1: int, mi: int, routed: bool',
                       ['0 <= c0 <= 3 and 0 <= c1 <= 3', '0 <= mi <= 2'],
                       'mw_eq_case(%d, pick(c0, 0, 3), pick(c1, 0, 3), pick(mi, 0, 2), bool(pick(int(routed), 0, 1)))' % indep, 150,
                       'two middleware components on falcon.App and falcon.asgi.App (independent_middleware=%s): each may complete the response '
                       'or raise in process_request / process_resource and stamps a header in process_response (finite table chosen by the '
                       'solver): equal status, header set and body' % bool(indep)))
    for si in ((0, 2, 3, 6, 8) if q else range(len(c05.STATUSES))):
        for sk in (0, 1, 2):
            if q and sk and si not in (0, 3):
                continue
            P.append(_part('app_status%d_stream%d' % (si, sk), 'mi: int, has_text: bool, has_data: bool, has_media: bool, set_cl: bool, set_ct: bool, text: str, data: bytes',
                           ['0 <= mi <= 2', 'len(text) <= 1 and len(data) <= 1', 'not (0xD800 <= ord(text[0]) <= 0xDFFF) if text else True'],
                           'app_eq_case(%d, mi, has_text, has_data, has_media, %d, set_cl, set_ct, text, data)' % (si, sk), 200 if q else 600,
                           'same responder on falcon.App and falcon.asgi.App (status %r, stream kind %d; method, body-source subset, explicit '
                           'Content-Length/Type, text/data <= 1 free character/byte symbolic): equal status, header set and body' % (c05.STATUSES[si], sk)))
    P.append(_part('client_vs_driver', 'tail: str, query: str, hv: str, mi: int', ['len(tail) == 1', 'len(query) <= 1 and len(hv) <= 1', '0 <= mi <= 1'],
                   'client_eq_case(tail, query, hv, mi)', 250 if q else 900,
                   'falcon.testing.simulate_request vs the spec-faithful WSGI driver on the same request: path tail 1-2, query <= 2, header value <= 1 '
                   'free printable ASCII characters'))
    return P
