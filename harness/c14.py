"""C14 -- buffered readers behave like one flat byte buffer for every chunking.

Real code: falcon.util.reader.BufferedReader (sync) and
falcon.asgi.reader.BufferedReader (async, driven by the loop-free trampoline).
Oracle: a cursor over the whole byte string (class Cur), 3-6 lines per operation.
Symbolic: data bytes, every size argument, the source's short-read schedule
(sync) / chunk cut positions (async).  Shapes: chunk_size, delimiter, operation
kinds, max_stream_len delta.
"""
import engine.loader as _l
_l.install()

import io  # noqa: E402

import falcon.asgi.reader as areader  # noqa: E402
import falcon.util.reader as sreader  # noqa: E402
from falcon.errors import DelimiterError  # noqa: E402

from engine.rt import FakeIO, PyBytesIO, fail, run_coro  # noqa: E402

import engine.rt as _rt  # noqa: E402
if not _rt.CONCRETE:  # the concrete replay interpreter uses the real io.BytesIO
    sreader.io = FakeIO(io)
    areader.io = FakeIO(io)

PROPERTY = 'C14'
UNITS = ['falcon.util.reader.BufferedReader.*', 'falcon.asgi.reader.BufferedReader.*']
STUBS = [
    'io.BytesIO inside falcon.util.reader / falcon.asgi.reader replaced by engine.rt.PyBytesIO (pure-Python write/seek/getvalue); '
    'the C class would realize symbolic bytes',
    'source of the sync reader = harness Src.read(size): returns min(size, short-read value) bytes, '
    'short-read schedule symbolic; records over-asking beyond max_stream_len',
    'source of the async reader = async generator over data cut at two symbolic positions (empty chunks included)',
    'module constant _MAX_JOIN_CHUNKS set to 1 in "bigjoin" shapes so the large-size BytesIO/pipe_until branches '
    'are reached with tiny data',
    'negative sizes other than -1 and readlines(hint=0) are outside the documented interface and excluded by precondition',
    'after a DelimiterError the history stops (reader state after the error is unspecified)',
    'outer reader is compared after a delimit() sub-reader only when the sub-reader was read to its end',
]
OUTSIDE = ['histories longer than 3 operations', 'data longer than 6 bytes', 'chunk_size > 4',
           'the Cython reader (falcon/cyutil/reader.pyx): binary, not symbolically executable']
BUDGET = {'quick': 420, 'thorough': 900}
TWIN_TIMEOUT = 60

D1 = b'-'


class Cur:
    """Reference: a flat cursor over the whole data."""

    def __init__(self, d):
        self.d = d
        self.p = 0
        self.hit_end = False  # an operation tried to go past the end

    def _norm(self, n):
        rem = len(self.d) - self.p
        if n is None or n == -1 or n > rem:
            return rem
        return n

    def read(self, n):
        if n is None or n == -1 or n > len(self.d) - self.p:
            self.hit_end = True  # the source must be drained to answer this read
        n = self._norm(n)
        if n <= 0:
            return b''
        r = self.d[self.p:self.p + n]
        self.p += len(r)
        return r

    def peek(self, n, chunk):
        if n < 0 or n > chunk:
            n = chunk
        return self.d[self.p:self.p + n]

    def until(self, delim, n, consume):
        i = self.d.find(delim, self.p)
        if i < 0 and (n is None or n == -1 or n > len(self.d) - self.p):
            self.hit_end = True
        n = self._norm(n)
        if n < 0:
            n = 0
        end = self.p + n
        if 0 <= i < end:
            end = i
        r = self.d[self.p:end]
        self.p = end
        if consume:
            if self.d[self.p:self.p + len(delim)] != delim:
                raise DelimiterError()
            self.p += len(delim)
        return r

    def readline(self, n):
        n = self._norm(n)
        i = self.d.find(b'\n', self.p)
        end = self.p + n
        if 0 <= i < end:
            end = i + 1
        r = self.d[self.p:end]
        self.p = end
        return r

    def readlines(self, hint):
        out = []
        tot = 0
        while True:
            line = self.readline(-1)
            if not line:
                break
            out.append(line)
            if hint >= 0:
                tot += len(line)
                if tot >= hint:
                    break
        return out

    def region(self, delim):
        i = self.d.find(delim, self.p)
        return len(self.d) if i < 0 else i


class Src:
    def __init__(self, data, shorts, limit):
        self.data = data
        self.pos = 0
        self.shorts = shorts
        self.i = 0
        self.limit = limit
        self.bad = False

    def read(self, size):
        if size <= 0 or size > self.limit - self.pos:
            self.bad = True  # asked for nothing, or for bytes beyond max_stream_len
        k = size
        if self.i < len(self.shorts):
            s = self.shorts[self.i]
            self.i += 1
            if 0 < s < size:
                k = s
        r = self.data[self.pos:self.pos + k]
        self.pos += len(r)
        return r


# ---------------------------------------------------------------- sync
# op codes: 0 read(n) 1 peek(n) 2 read_until(D,n) 3 read_until(D,n,consume) 4 readline(n)
#           5 readlines(n) 6 pipe 7 pipe_until(D) 8 pipe_until(D,consume) 9 exhaust
#           10 delimit(D): sub.read(n) + sub.read()   11 delimit(D): sub.peek(n), sub.readline(n), sub.exhaust()
#           12 delimit(D): sub.read_until(b'x', n) + sub.pipe()
SYNC_OPS = {0: 'read', 1: 'peek', 2: 'read_until', 3: 'read_until_consume', 4: 'readline', 5: 'readlines',
            6: 'pipe', 7: 'pipe_until', 8: 'pipe_until_consume', 9: 'exhaust', 10: 'delimit_read',
            11: 'delimit_peek_readline', 12: 'delimit_until_pipe'}


def _sync_real(r, op, n, D):
    if op == 0:
        return r.read(n)
    if op == 1:
        return r.peek(n)
    if op == 2:
        return r.read_until(D, n, False)
    if op == 3:
        return r.read_until(D, n, True)
    if op == 4:
        return r.readline(n)
    if op == 5:
        return r.readlines(n)
    if op == 6:
        b = PyBytesIO()
        r.pipe(b)
        return b.getvalue()
    if op == 7:
        b = PyBytesIO()
        r.pipe_until(D, b, False)
        return b.getvalue()
    if op == 8:
        b = PyBytesIO()
        r.pipe_until(D, b, True)
        return b.getvalue()
    if op == 9:
        r.exhaust()
        return None
    sub = r.delimit(D)
    if op == 10:
        return (sub.read(n), sub.read())
    if op == 11:
        a = sub.peek(n)
        b = sub.readline(n)
        sub.exhaust()
        return (a, b)
    if op == 12:
        a = sub.read_until(b'x', n)
        b = PyBytesIO()
        sub.pipe(b)
        return (a, b.getvalue())
    raise AssertionError(op)


def _model(m, op, n, D, chunk, asyn=False):
    if op == 0:
        return m.read(n)
    if op == 1:
        return m.peek(n, chunk)
    if op == 2:
        return m.until(D, n, False)
    if op == 3:
        return m.until(D, n, True)
    if op == 4:
        return m.readline(n)
    if op == 5:
        return m.readlines(n)
    if op == 6:
        return m.read(-1)
    if op == 7:
        return m.until(D, -1, False)
    if op == 8:
        return m.until(D, -1, True)
    if op == 9:
        m.read(-1)
        return None
    # sub-reader over the region up to the delimiter
    end = m.region(D)
    sub = Cur(m.d[m.p:end])
    if op == 10:
        res = (sub.read(n), sub.read(-1))
    elif op == 11:
        a = sub.peek(n, chunk)
        b = sub.readline(n)
        res = (a, b)
    else:
        a = sub.until(b'x', n, False)
        res = (a, sub.read(-1))
    m.p = end
    return res


def sync_scenario(data, chunk, D, msl_delta, shorts, ops, maxjoin=None):
    limit = len(data) + msl_delta
    if limit < 0:
        return 2
    eff = data[:limit]
    src = Src(data, shorts, limit)
    saved = sreader._MAX_JOIN_CHUNKS
    if maxjoin is not None:
        sreader._MAX_JOIN_CHUNKS = maxjoin
    try:
        r = sreader.BufferedReader(src.read, limit, chunk)
    finally:
        sreader._MAX_JOIN_CHUNKS = saved
    m = Cur(eff)
    k = 0
    for op, n in ops:
        e1 = e2 = False
        a = b = None
        try:
            a = _sync_real(r, op, n, D)
        except DelimiterError:
            e1 = True
        try:
            b = _model(m, op, n, D, chunk)
        except DelimiterError:
            e2 = True
        if e1 != e2:
            return fail(lambda: 'op#%d %s(%r): DelimiterError real=%r model=%r' % (k, SYNC_OPS[op], n, e1, e2))
        if e1:
            return 1
        if a != b:
            return fail(lambda: 'op#%d %s(%r): real %r != cursor %r' % (k, SYNC_OPS[op], n, a, b))
        k += 1
    rest = r.read()
    if rest != m.d[m.p:]:
        return fail(lambda: 'final read(): real %r != cursor rest %r' % (rest, m.d[m.p:]))
    if src.bad:
        return fail('source was asked for <=0 bytes or for bytes beyond max_stream_len')
    if src.pos > limit:
        return fail('read beyond max_stream_len')
    return 1


# ---------------------------------------------------------------- async
# op codes: 0 read(n) 1 peek(n) 2 read_until(D,n) 3 read_until(D,n,consume) 4 readall 5 pipe 6 pipe_until(D)
#           7 pipe_until(D,consume) 8 exhaust 9 delimit(D): sub.read(n)+sub.readall()  10 async-for iteration
#           11 delimit(D): sub.peek(n) + sub.read_until(b'x', n) + sub.pipe()
ASYNC_OPS = {0: 'read', 1: 'peek', 2: 'read_until', 3: 'read_until_consume', 4: 'readall', 5: 'pipe',
             6: 'pipe_until', 7: 'pipe_until_consume', 8: 'exhaust', 9: 'delimit_read', 10: 'iterate',
             11: 'delimit_peek_until_pipe'}


class _ASink:
    def __init__(self):
        self.parts = []

    async def write(self, data):
        self.parts.append(data)


async def _source(chunks):
    for c in chunks:
        yield c


async def _async_real(r, op, n, D):
    if op == 0:
        return await r.read(n)
    if op == 1:
        return await r.peek(n)
    if op == 2:
        return await r.read_until(D, n, False)
    if op == 3:
        return await r.read_until(D, n, True)
    if op == 4:
        return await r.readall()
    if op == 5:
        s = _ASink()
        await r.pipe(s)
        return b''.join(s.parts)
    if op == 6:
        s = _ASink()
        await r.pipe_until(D, s, False)
        return b''.join(s.parts)
    if op == 7:
        s = _ASink()
        await r.pipe_until(D, s, True)
        return b''.join(s.parts)
    if op == 8:
        await r.exhaust()
        return None
    if op == 10:
        parts = []
        async for c in r:
            parts.append(c)
        return b''.join(parts)
    sub = r.delimit(D)
    if op == 9:
        a = await sub.read(n)
        b = await sub.readall()
        return (a, b)
    if op == 11:
        a = await sub.peek(n)
        b = await sub.read_until(b'x', n)
        s = _ASink()
        await sub.pipe(s)
        return (a, b, b''.join(s.parts))
    raise AssertionError(op)


def _amodel(m, op, n, D, chunk):
    if op in (0, 1, 2, 3):
        if op == 0 and n is not None and n != -1 and n <= 0:
            return b''
        if op in (2, 3) and n is not None and n != -1 and n <= 0:
            # documented: size <= 0 (other than -1) reads nothing; delimiter is still consumed when asked
            return m.until(D, 0, op == 3)
        return _model(m, op, n, D, chunk)
    if op == 4 or op == 5 or op == 10:
        return m.read(-1)
    if op == 6:
        return m.until(D, -1, False)
    if op == 7:
        return m.until(D, -1, True)
    if op == 8:
        m.read(-1)
        return None
    end = m.region(D)
    sub = Cur(m.d[m.p:end])
    if op == 9:
        a = b'' if (n is not None and n != -1 and n <= 0) else sub.read(n)
        res = (a, sub.read(-1))
    else:
        a = sub.peek(n, chunk)
        if n is not None and n != -1 and n <= 0:
            b = b''
        else:
            b = sub.until(b'x', n, False)
        res = (a, b, sub.read(-1))
    m.p = end
    if end == len(m.d):
        m.hit_end = True  # no delimiter: the sub-reader drained the source
    return res


def async_scenario(data, cut1, cut2, chunk, D, ops, maxjoin=None):
    chunks = [data[:cut1], data[cut1:cut2], data[cut2:]]
    saved = areader._MAX_JOIN_CHUNKS
    if maxjoin is not None:
        areader._MAX_JOIN_CHUNKS = maxjoin
    try:
        r = areader.BufferedReader(_source(chunks), chunk)
    finally:
        areader._MAX_JOIN_CHUNKS = saved
    m = Cur(data)
    k = 0
    iterated = False
    for op, n in ops:
        if op == 10:
            if iterated:
                return 2
            iterated = True
        e1 = e2 = False
        a = b = None
        m.hit_end = False
        try:
            a = run_coro(_async_real(r, op, n, D))
        except DelimiterError:
            e1 = True
        try:
            b = _amodel(m, op, n, D, chunk)
        except DelimiterError:
            e2 = True
        if e1 != e2:
            return fail(lambda: 'op#%d %s(%r): DelimiterError real=%r model=%r' % (k, ASYNC_OPS[op], n, e1, e2))
        if e1:
            return 1
        if a != b:
            return fail(lambda: 'op#%d %s(%r): real %r != cursor %r' % (k, ASYNC_OPS[op], n, a, b))
        t = r.tell()
        if t != m.p:
            return fail(lambda: 'after op#%d %s(%r): tell() %r != cursor position %r' % (k, ASYNC_OPS[op], n, t, m.p))
        if r.eof and m.p != len(m.d):
            return fail(lambda: 'after op#%d %s: eof reported with %d bytes left' % (k, ASYNC_OPS[op], len(m.d) - m.p))
        if m.hit_end and m.p == len(m.d) and not r.eof:
            return fail(lambda: 'after op#%d %s: read ran into the end of the stream but eof is False' % (k, ASYNC_OPS[op]))
        k += 1
    rest = run_coro(r.readall())
    if rest != m.d[m.p:]:
        return fail(lambda: 'final readall(): real %r != cursor rest %r' % (rest, m.d[m.p:]))
    if not r.eof:
        return fail('eof False after readall()')
    if r.tell() != len(m.d):
        return fail(lambda: 'tell() %r != %r after readall()' % (r.tell(), len(m.d)))
    return 1


# ---------------------------------------------------------------- partitions
_SYNC_T = '''
def {fn}(data: bytes, s0: int, s1: int{nargs}) -> int:
    """
    pre: len(data) <= {L}
    pre: 0 <= s0 <= {S} and 0 <= s1 <= {S}
{npre}    post: _ != 0
    """
    return sync_scenario(data, {chunk}, {D!r}, {msl}, [s0, s1], ({ops}){mj})
'''

_ASYNC_T = '''
def {fn}(data: bytes{nargs}) -> int:
    """
    pre: len(data) == {L}
{npre}    post: _ != 0
    """
    return async_scenario(data, {cut1}, {cut2}, {chunk}, {D!r}, ({ops}){mj})
'''

_SIZED_SYNC = {0, 1, 2, 3, 4, 5, 10, 11, 12}
_SIZED_ASYNC = {0, 1, 2, 3, 9, 11}


def _mk(kind, ops, chunk, D, L, msl=0, maxjoin=None, timeout=200, S=1, cuts=(1, 2)):
    sized = _SIZED_SYNC if kind == 's' else _SIZED_ASYNC
    names = SYNC_OPS if kind == 's' else ASYNC_OPS
    nargs, npre, opsrc = '', '', []
    line_ops = (kind == 's' and any(o in (4, 5, 11) for o in ops))
    alpha = set(D) | {120}
    if line_ops:
        alpha.add(10)
    for i, o in enumerate(ops):
        if o in sized:
            nargs += ', n%d: int' % i
            lo = -1
            if kind == 's' and o == 5:
                npre += '    pre: n%d == -1 or 1 <= n%d\n' % (i, i)
            else:
                npre += '    pre: %d <= n%d\n' % (lo, i)
            opsrc.append('(%d, n%d)' % (o, i))
        else:
            opsrc.append('(%d, -1)' % o)
    name = '%s_c%d_d%d_L%d_%s%s_%s' % ('sync' if kind == 's' else 'async', chunk, len(D), L,
                                          ('m%+d_S%d' % (msl, S)) if kind == 's' else 'cut%d%d' % cuts,
                                          '_mj%d' % maxjoin if maxjoin is not None else '',
                                          '-'.join(names[o] for o in ops))
    fn = 'h'
    T = _SYNC_T if kind == 's' else _ASYNC_T
    src = T.format(fn=fn, L=L, S=S, cut1=cuts[0], cut2=cuts[1], alpha=tuple(sorted(alpha)), chunk=chunk, D=D, msl=msl, nargs=nargs, npre=npre,
                   ops=', '.join(opsrc) + ',', mj=(', maxjoin=%d' % maxjoin) if maxjoin is not None else '')
    return {'name': name, 'fn': fn, 'src': src, 'timeout': timeout,
            'bounds': '%s reader, chunk_size=%d, delimiter=%r, len(data)%s%d with every byte value free (0..255), '
                      'max_stream_len=len%+d, ops=%s, every size argument any integer >= -1, %s' % (
                          'sync' if kind == 's' else 'async', chunk, D, '<=' if kind == 's' else '==', L,
                          msl, [names[o] for o in ops],
                          'short-read schedule symbolic (2 reads, each 0..%d)' % S if kind == 's'
                          else 'source chunks cut at %r (shape)' % (cuts,))}


def partitions(tier, seed):
    P = []
    if tier == 'quick':
        spairs = [(2, 0), (1, 2), (3, 2), (4, 0), (10, 0), (7, 1), (0, 3), (8, 0), (5, 0), (11, 2), (1, 4), (3, 3),
                  (12, 0), (2, 2), (6, 0), (9, 0)]
        for ops in spairs:
            P.append(_mk('s', ops, 2, D1, 3 if (set(ops) & {11, 12}) else 4, S=0))
        for ops in [(2, 0), (3, 2), (1, 2), (0, 1), (4, 0)]:
            P.append(_mk('s', ops, 2, D1, 3, S=1))
        for ops in [(2, 0), (3, 2), (1, 2), (10, 0)]:
            P.append(_mk('s', ops, 3, b'-x', 4, S=0))
        # multi-byte delimiters straddling buffer / chunk edges after a prior read or peek
        for ops in [(0, 2), (0, 3), (1, 3)]:
            P.append(_mk('s', ops, 3, b'-x', 5, S=0))
        for ops in [(0, 2), (1, 2)]:
            P.append(_mk('s', ops, 3, b'-x-', 5, S=0))
        # 7 bytes: a 3-byte delimiter can straddle two full chunks with more data behind it (no EOF shortcut)
        P.append(_mk('s', (0, 2), 3, b'-x-', 7, S=0))
        P.append(_mk('s', (0, 3), 3, b'-x-', 7, S=0))
        P.append(_mk('s', (2, 0), 2, D1, 3, msl=-1, S=0))
        P.append(_mk('s', (3, 1), 2, D1, 3, msl=1, S=0))
        P.append(_mk('s', (2, 0), 1, D1, 3, maxjoin=1, S=0))
        P.append(_mk('s', (3, 2), 1, D1, 3, maxjoin=1, S=0))
        apairs = [(2, 0), (3, 2), (1, 2), (0, 1), (6, 1), (7, 0), (9, 0), (2, 4), (1, 10), (11, 0), (0, 3), (5, 0),
                  (2, 2), (8, 0), (3, 3), (1, 3)]
        cutsel = [(1, 2), (0, 0), (2, 2), (1, 3), (3, 4), (2, 3)]
        for i, ops in enumerate(apairs):
            small = bool(set(ops) & {10, 11})
            P.append(_mk('a', ops, 2, D1, 3 if small else 4, cuts=(1, 2) if small else cutsel[i % len(cutsel)]))
        for i, ops in enumerate([(2, 0), (3, 2), (1, 2), (9, 0)]):
            P.append(_mk('a', ops, 3, b'-x', 4, cuts=cutsel[(i + 1) % len(cutsel)]))
        for ops, cuts in [((1, 2), (3, 5)), ((0, 2), (3, 4)), ((1, 3), (2, 3))]:
            P.append(_mk('a', ops, 3, b'-x-', 5, cuts=cuts))
        P.append(_mk('a', (0, 2), 3, b'-x', 5, cuts=(3, 5)))
        P.append(_mk('a', (0, 2), 3, b'-x-', 7, cuts=(3, 6)))
        P.append(_mk('a', (2, 0), 1, D1, 3, maxjoin=1, cuts=(1, 2)))
        P.append(_mk('a', (0, 2), 1, D1, 3, maxjoin=1, cuts=(0, 2)))
        return P
    # thorough: all pairs for chunk 2, key pairs for chunk 1/3/4 and 2/3-byte delimiters, triples ending in read
    for a in range(13):
        for b in range(13):
            P.append(_mk('s', (a, b), 2, D1, 4, timeout=420))
    for a in range(12):
        for b in range(12):
            if a == 10 and b == 10:
                continue
            P.append(_mk('a', (a, b), 2, D1, 4, timeout=420))
    key_s = [(2, 0), (3, 2), (1, 2), (10, 0), (4, 0), (7, 1), (8, 0), (11, 2), (12, 0), (3, 3), (0, 3), (1, 4)]
    key_a = [(2, 0), (3, 2), (1, 2), (9, 0), (6, 1), (7, 0), (11, 0), (0, 3), (3, 3), (1, 3), (2, 4), (1, 10)]
    for ops in key_s:
        P.append(_mk('s', ops, 1, D1, 4, timeout=420))
        P.append(_mk('s', ops, 3, b'-x', 5, timeout=420))
        P.append(_mk('s', ops, 3, b'-x-', 5, timeout=420))
        P.append(_mk('s', ops, 4, b'--', 6, timeout=600))
        P.append(_mk('s', ops, 2, D1, 4, msl=-1, timeout=420))
        P.append(_mk('s', ops, 2, D1, 4, msl=1, timeout=420))
        P.append(_mk('s', ops, 1, D1, 3, maxjoin=1, timeout=420))
        P.append(_mk('s', ops + (0,), 2, D1, 4, timeout=600))
    for ops in key_a:
        P.append(_mk('a', ops, 1, D1, 4, timeout=420))
        P.append(_mk('a', ops, 3, b'-x', 5, timeout=420))
        P.append(_mk('a', ops, 3, b'-x-', 5, timeout=420))
        P.append(_mk('a', ops, 4, b'--', 6, timeout=600))
        P.append(_mk('a', ops, 1, D1, 3, maxjoin=1, timeout=420))
        P.append(_mk('a', ops + (0,), 2, D1, 4, timeout=600))
    return P
