"""C18 -- WebSocket receive buffering is FIFO, bounded and lossless under every schedule.

Real code: falcon.asgi.ws._BufferedReceiver (pump task, queue, waiter) and WebSocket.accept/receive_*/send_*/close/
closed/ready, on the deterministic MiniLoop.  Symbolic: number of client messages, queue capacity, presence of a
final disconnect, and ONE BOOLEAN PER SCHEDULING DECISION ("the environment resolves the oldest outstanding server
receive() now" vs "run the next ready callback").  Application scripts are the shapes.
"""
import engine.loader as _l
_l.install()

import asyncio  # noqa: E402

from falcon import errors, media  # noqa: E402
from falcon.asgi.ws import WebSocket  # noqa: E402
from falcon.constants import WebSocketPayloadType  # noqa: E402

from engine.envmodels import MiniLoop, running_loop  # noqa: E402
from engine.rt import fail  # noqa: E402
import harness.c17 as c17  # noqa: E402

PROPERTY = 'C18'
UNITS = ['falcon.asgi.ws._BufferedReceiver.start/stop/receive/_pump', 'falcon.asgi.ws.WebSocket.accept/receive_text/send_text/close/'
         '_send/_receive/closed/ready']
STUBS = [
    'event loop = engine.envmodels.MiniLoop (FIFO ready queue like asyncio, real asyncio.Future/Task objects); the server side is the '
    'harness: receive() returns a future the schedule resolves, send() records the event; with burst > 0 up to 2 further client events '
    'arrive together with a delivery and wait in a server-side queue, from which the next receive() returns without yielding',
    'app_* partitions: the whole falcon.asgi.App session driver and oracle of C17 (harness.c17.session_case) + leftover-task check',
    'the client stays silent after its scripted messages: an application blocked in receive with nothing left to deliver is a legal '
    'end state, a receive that could be satisfied but is left waiting is a lost wake-up',
    '"promptly" for senders: a send that starts after the pump task has been resumed with the disconnect event must raise '
    'WebSocketDisconnected',
]
OUTSIDE = ['more than 3 messages / 10 scheduling decisions', 'event loops with non-FIFO policies', 'capacity 0 (unbuffered mode: C17)']
BUDGET = {'quick': 300, 'thorough': 900}

OPS = {0: 'receive', 1: 'send', 2: 'close', 3: 'yield', 4: 'receive-then-cancel'}


def scenario(k, cap, disc, script, choices, burst=0):
    loop = MiniLoop()
    with running_loop(loop):
        pending = []
        sent = []
        msgs = [{'type': 'websocket.receive', 'text': str(i)} for i in range(k)]
        if disc:
            msgs.append({'type': 'websocket.disconnect', 'code': 1001})
        st = {'delivered': 0, 'arrived': 0, 'disc_handle': None, 'disc_seen_step': None}
        inq = []    # events that reached the server while nobody was receiving (burst > 0 only)

        async def server_receive():
            if inq:
                # a server with its own inbound queue hands a waiting event over without yielding to the loop
                ev = inq.pop(0)
                st['delivered'] += 1
                if ev['type'] == 'websocket.disconnect':
                    st['disc_seen_step'] = loop.steps
                return ev
            f = loop.create_future()
            pending.append(f)
            return await f

        async def server_send(ev):
            sent.append((ev, loop.steps))
        mh = {WebSocketPayloadType.TEXT: media.JSONHandlerWS(), WebSocketPayloadType.BINARY: media.JSONHandlerWS()}
        ws = WebSocket('2.3', {}, server_receive, server_send, mh, cap, {})
        log = []

        async def app():
            await ws.accept()
            for op in script:
                try:
                    if op == 0:
                        log.append(('got', await ws.receive_text(), loop.steps))
                    elif op == 1:
                        start = loop.steps
                        await ws.send_text('s')
                        log.append(('sent', start, loop.steps))
                    elif op == 2:
                        await ws.close()
                        log.append(('closed', loop.steps))
                    elif op == 3:
                        await asyncio.sleep(0)
                    else:
                        t = loop.create_task(ws.receive_text())
                        await asyncio.sleep(0)
                        if t.done():
                            log.append(('got', t.result(), loop.steps))
                        else:
                            t.cancel()
                            try:
                                await t
                            except asyncio.CancelledError:
                                log.append(('cancelled', loop.steps))
                except errors.WebSocketDisconnected:
                    log.append(('disc', loop.steps))
            await ws.close()
        t = loop.create_task(app())
        ci = 0
        maxq = 0
        maxheld = 0
        outcome = 'ok'
        guard = 0
        while not t.done():
            guard += 1
            if guard > 600:
                outcome = 'livelock'
                break
            can_deliver = bool(pending) and st['arrived'] < len(msgs)
            can_step = bool(loop._ready)
            if can_deliver and can_step:
                c = choices[ci] if ci < len(choices) else False
                ci += 1
            elif can_deliver:
                c = True
            elif can_step:
                c = False
            else:
                outcome = 'blocked'
                break
            if c:
                f = pending.pop(0)
                if not f.cancelled():
                    ev = msgs[st['arrived']]
                    before = len(loop._ready)
                    f.set_result(ev)
                    st['arrived'] += 1
                    st['delivered'] += 1
                    if ev['type'] == 'websocket.disconnect' and len(loop._ready) > before:
                        st['disc_handle'] = loop._ready[-1]    # the wake-up of the task that awaited this receive()
                    for _ in range(burst):     # the next client events arrive back-to-back with this one
                        if st['arrived'] < len(msgs):
                            inq.append(msgs[st['arrived']])
                            st['arrived'] += 1
            else:
                h = loop.run_one()
                if h is st['disc_handle']:
                    st['disc_seen_step'] = loop.steps
            q = len(ws._buffered_receiver._messages)
            maxq = max(maxq, q)
            gots = sum(1 for x in log if x[0] == 'got')
            held = st['delivered'] - gots - (1 if (disc and st['delivered'] == len(msgs)) else 0)
            maxheld = max(maxheld, held)
        if outcome == 'ok':
            t.result()
        return outcome, log, sent, maxq, maxheld, ws, st


def check_case(k, cap, disc, script, choices, burst=0):
    outcome, log, sent, maxq, maxheld, ws, st = scenario(k, cap, disc, script, choices, burst)
    ctx = lambda: 'k=%r capacity=%r disconnect=%r script=%r schedule=%r burst=%r -> %s log=%r' % (  # noqa: E731
        k, cap, disc, [OPS[o] for o in script], choices, burst, outcome, log)
    if outcome == 'livelock':
        return fail(lambda: 'livelock: ' + ctx())
    if maxq > cap:
        return fail(lambda: 'queue held %d messages, capacity %d: %s' % (maxq, cap, ctx()))
    if maxheld > cap + 1:
        return fail(lambda: '%d messages pulled from the server but not handed over (capacity %d + the one in flight): %s' % (maxheld, cap, ctx()))
    gots = [x[1] for x in log if x[0] == 'got']
    if gots != [str(i) for i in range(len(gots))] or len(gots) > k:
        return fail(lambda: 'messages not delivered once each in order: got %r: %s' % (gots, ctx()))
    # a receiver sees the disconnect only after the messages that preceded it
    for i, x in enumerate(log):
        if x[0] == 'disc' and script[:len(script)] and not any(y[0] == 'closed' for y in log[:i]):
            recv_before = sum(1 for y in log[:i] if y[0] == 'got')
            op_index = i
            if op_index < len(script) and script[op_index] in (0, 4) and disc and recv_before < k and st['delivered'] <= k:
                return fail(lambda: 'receiver saw the disconnect before message #%d: %s' % (recv_before, ctx()))
    # a sender learns of the disconnect on its next send after the pump saw it
    if st['disc_seen_step'] is not None:
        for x in log:
            if x[0] == 'sent' and x[1] >= st['disc_seen_step']:
                return fail(lambda: 'send_text succeeded at step %d although the disconnect reached falcon at step %d: %s' % (
                    x[1], st['disc_seen_step'], ctx()))
    if outcome == 'blocked':
        # legal only when the application waits in a receive and the client has nothing more to say
        if disc or len(gots) != k:
            return fail(lambda: 'a receive that could be satisfied is left waiting (lost wake-up): %s' % ctx())
        return 1
    types = [e[0]['type'] for e in sent]
    if types[:1] != ['websocket.accept']:
        return fail(lambda: 'first event %r: %s' % (types[:1], ctx()))
    if types.count('websocket.close') > 1:
        return fail(lambda: 'two close events: %s' % ctx())
    if 'websocket.close' in types and types[-1] != 'websocket.close':
        return fail(lambda: 'events after close: %r: %s' % (types, ctx()))
    pump = ws._buffered_receiver._pump_task
    if pump is not None and not pump.done():
        return fail(lambda: 'background reader still running after close(): %s' % ctx())
    return 1


# ---------------------------------------------------------------- partitions
def app_case(ops, queue, ci, fail_send, choices, burst):
    """Whole-app session (C17's driver and oracle), then: once the application callable has returned and the loop has run dry,
    no task that falcon created may be left unfinished (closing / cleaning up stops the background reader)."""
    r = c17.session_case(ops, 1000, queue, 2, ci, fail_send, 0, choices, burst)
    if r != 1:
        return r
    left = c17.LAST.get('leftover')
    if left:
        return fail(lambda: 'app(scope, receive, send) returned but %d task(s) are still pending: %r  (script %r, queue %d, client %r, '
                    'fail_send %r, schedule %r, burst %r)' % (len(left), left, [c17.OPS[o] for o in ops], queue, c17.CLIENT[ci], fail_send,
                                                              choices, burst))
    return 1


def _app_part(ops, queue, nbits, timeout):
    bits = ', '.join('c%d: bool' % i for i in range(nbits))
    src = '''
def h(ci: int, fail_send: int, burst: int, %s) -> int:
    """
    pre: 0 <= ci < %d and 0 <= fail_send <= 3 and 0 <= burst <= 2
    post: _ != 0
    """
    return app_case(%r, %d, ci, fail_send, [%s], burst)
''' % (bits, len(c17.CLIENT), tuple(ops), queue, ', '.join('c%d' % i for i in range(nbits)))
    return {'name': 'app_q%d_%s' % (queue, '-'.join(str(o) for o in ops)), 'fn': 'h', 'src': src, 'timeout': timeout,
            'bounds': 'whole falcon.asgi.App WebSocket session, responder script %s (errors of the "propagate" operations reach '
                      'falcon\'s default handlers), max_receive_queue=%d, client script from a menu of %d, k-th server send() raises (0..3), '
                      '%d schedule decisions, up to 2 client events arriving back-to-back (server-side queue): C17\'s session oracle, plus '
                      'no unfinished task after the application callable returns' % ([c17.OPS[o] for o in ops], queue, len(c17.CLIENT), nbits)}


def _part(script, nbits, kmax, capmax, timeout):
    bits = ', '.join('c%d: bool' % i for i in range(nbits))
    src = '''
def h(k: int, cap: int, disc: bool, burst: int, %s) -> int:
    """
    pre: 0 <= k <= %d and 1 <= cap <= %d and 0 <= burst <= 2
    post: _ != 0
    """
    return check_case(k, cap, disc, %r, [%s], burst)
''' % (bits, kmax, capmax, tuple(script), ', '.join('c%d' % i for i in range(nbits)))
    return {'name': 'script_%s_k%d_cap%d_b%d' % ('-'.join({0: 'recv', 1: 'send', 2: 'close', 3: 'yield', 4: 'rcancel'}[o] for o in script), kmax, capmax, nbits), 'fn': 'h', 'src': src,
            'timeout': timeout,
            'bounds': 'application script accept, %s, close; client messages k in 0..%d then an optional disconnect, queue capacity 1..%d, '
                      '%d scheduling decisions (environment delivers vs next ready callback), 0..2 further client events arriving back-to-back with a '
                      'delivery (server-side queue: the next receive() returns without yielding) -- all symbolic' % (
                          [OPS[o] for o in script], kmax, capmax, nbits)}


def partitions(tier, seed):
    P = []
    q = tier == 'quick'
    scripts = [(0, 0), (0, 1), (1, 0), (0, 2, 0), (1, 1), (0, 1, 0), (3, 0, 0), (4, 0), (0, 4, 0), (4, 4), (3, 1, 1), (1, 3, 1), (0, 3, 1),
               (3, 3, 1), (4, 1, 0), (2, 0), (2, 1), (0, 0, 0), (3, 0, 1), (1, 0, 2)]
    if q:
        for s in scripts:
            P.append(_part(s, 10, 3, 3, 200))
        for s in [(0, 1, 0, 0), (4, 0, 1, 0), (1, 0, 0, 2), (0, 0, 4, 1)]:
            P.append(_part(s, 10, 2, 2, 200))
        for queue, ops in [(1, (0, 12, 15)), (2, (0, 12, 12, 15)), (1, (0, 2, 15)), (2, (0, 3, 15)), (1, (0, 16)), (2, (0, 12, 16)), (1, (0, 3, 16)),
                           (2, (0, 15, 1))]:
            P.append(_app_part(ops, queue, 8, 200))
    else:
        for queue in (1, 2, 3):
            for ops in [(0, 12, 15), (0, 12, 12, 15), (0, 12, 12, 12, 15), (0, 2, 15), (0, 3, 15), (0, 16), (0, 12, 16), (0, 3, 16), (0, 15, 1),
                        (0, 16, 15), (0, 3, 12, 15), (15,), (16,), (0, 1, 15), (0, 1, 16)]:
                P.append(_app_part(ops, queue, 10, 600))
        import itertools
        allscripts = [s for n in (1, 2, 3) for s in itertools.product(range(5), repeat=n)]
        for s in allscripts:
            P.append(_part(s, 10, 3, 3, 900))
        for s in scripts[:8]:
            P.append(_part(s + (0,), 10, 2, 2, 900))
    return P
