"""C05 -- responses are protocol-valid and length-consistent on both server interfaces; streams closed once.

Real code: falcon.App.__call__ tail / _get_body / Response.render_body / _wsgi_headers / CloseableStreamIterator,
falcon.asgi.App.__call__ emission branches / _asgi_headers, code_to_http_status.
Oracle: the PEP 3333 and ASGI monitors of engine/envmodels.py + the rules of the property (precedence
text > data > media > stream, Content-Length == bytes sent, bodiless statuses / HEAD, typeless statuses, close()==1).
"""
import engine.loader as _l
_l.install()

import asyncio  # noqa: E402

import http  # noqa: E402

import falcon  # noqa: E402
import falcon.asgi  # noqa: E402

from engine.driver import known_findings as _kf  # noqa: E402
from engine.envmodels import ProtocolError, asgi_call, make_environ, make_scope, wsgi_call  # noqa: E402
from engine.rt import fail, notrace  # noqa: E402

PROPERTY = 'C05'
UNITS = ['falcon.app.App.__call__ (response tail)', 'falcon.app.App._get_body', 'falcon.response.Response.render_body/_wsgi_headers',
         'falcon.app_helpers.CloseableStreamIterator', 'falcon.asgi.app.App.__call__ (emission branches)',
         'falcon.asgi.response.Response._asgi_headers', 'falcon.util.misc.code_to_http_status']
STUBS = [
    'apps are built once per worker outside tracing; the responder reads its configuration from a table the harness fills per path',
    'WSGI server = engine.envmodels.wsgi_call (calls close() on the returned iterable exactly as PEP 3333 demands); optional '
    'wsgi.file_wrapper model; ASGI server = trampoline driver whose k-th send() can raise',
    'status values come from a menu (int, str line, http.HTTPStatus, unknown code); text/data content is symbolic',
    "file-like response streams hold b'abc' and hand out at most 2 bytes per read() (short reads before EOF, like a pipe)",
]
OUTSIDE = ['SSE emitters beyond 3 events / 10 schedule decisions; SSE with a failing server send()', 'custom response classes', 'more than 2 stream chunks',
           'media handlers other than JSON']
BUDGET = {'quick': 300, 'thorough': 900}

LISTED = set(_kf()[0].get('C05', {}))

STATUSES = [200, 201, 204, 304, 100, 101, 404, 599, '200 OK', '204 No Content', http.HTTPStatus.NOT_MODIFIED, 703]
CODES = [200, 201, 204, 304, 100, 101, 404, 599, 200, 204, 304, 703]
METHODS = ['GET', 'HEAD', 'POST']
BOX = {}


class _Fail(Exception):
    pass


class Stream:
    """sync iterable with close()"""

    def __init__(self, chunks, fail_at):
        self.chunks = list(chunks)
        self.i = 0
        self.closed = 0
        self.fail_at = fail_at

    def __iter__(self):
        return self

    def __next__(self):
        if self.fail_at == self.i + 1:
            self.i += 1
            raise _Fail('stream failed')
        if self.i >= len(self.chunks):
            raise StopIteration
        c = self.chunks[self.i]
        self.i += 1
        return c

    def close(self):
        self.closed += 1


class FileLike:
    def __init__(self, data, fail_at):
        self.d = data
        self.p = 0
        self.closed = 0
        self.n = 0
        self.fail_at = fail_at

    def read(self, size=-1):
        self.n += 1
        if self.fail_at == self.n:
            raise _Fail('read failed')
        if size is None or size < 0:
            size = len(self.d)
        # a pipe-like source: at most 2 bytes per call, i.e. short reads before the end of the data (read() may always
        # return fewer bytes than asked for; only b'' means EOF)
        r = self.d[self.p:self.p + min(size, 2)]
        self.p += len(r)
        return r

    def close(self):
        self.closed += 1


class FileLikeNoClose:
    def __init__(self, data, fail_at):
        self._f = FileLike(data, fail_at)
        self.closed = None

    def read(self, size=-1):
        return self._f.read(size)


class AStream:
    def __init__(self, chunks, fail_at):
        self.chunks = list(chunks)
        self.i = 0
        self.closed = 0
        self.fail_at = fail_at

    def __aiter__(self):
        return self

    async def __anext__(self):
        if self.fail_at == self.i + 1:
            self.i += 1
            raise _Fail('stream failed')
        if self.i >= len(self.chunks):
            raise StopAsyncIteration
        c = self.chunks[self.i]
        self.i += 1
        return c

    async def close(self):
        self.closed += 1


class AFileLike:
    def __init__(self, data, fail_at):
        self._f = FileLike(data, fail_at)

    async def read(self, size=-1):
        return self._f.read(size)

    async def close(self):
        self._f.closed += 1

    @property
    def closed(self):
        return self._f.closed


def _configure(resp, asgi):
    b = BOX
    resp.status = STATUSES[b['si']]
    if b['has_text']:
        resp.text = b['text']
    if b['has_data']:
        resp.data = b['data']
    if b['has_media']:
        resp.media = {'k': 1}
    sk = b['stream_kind']
    s = None
    if sk == 1:
        s = (AStream if asgi else Stream)([b'ab', b'c'], b['fail_at'])
    elif sk == 2:
        s = (AFileLike if asgi else FileLike)(b'abc', b['fail_at'])
    elif sk == 3 and not asgi:
        s = FileLikeNoClose(b'abc', b['fail_at'])
    elif sk == 3 and asgi:
        async def gen():
            yield b'ab'
            yield b'c'
        s = gen()
    if s is not None:
        resp.stream = s
        b['stream'] = s
    if b['set_cl']:
        resp.content_length = 7
    if b['set_ct']:
        resp.content_type = 'x/y'
    if b['cookie']:
        resp.set_cookie('c', 'v')


class _Res:
    def on_get(self, req, resp):
        _configure(resp, False)
    on_head = on_post = on_get


class _ARes:
    async def on_get(self, req, resp):
        _configure(resp, True)
    on_head = on_post = on_get


_APPS = {}


def _app(asgi):
    if asgi not in _APPS:
        with notrace():
            app = (falcon.asgi.App if asgi else falcon.App)()
            app.add_route('/x', _ARes() if asgi else _Res())
            BOX.update(si=0, has_text=True, text='w', has_data=False, data=b'', has_media=True, stream_kind=0, fail_at=0, set_cl=False,
                       set_ct=False, cookie=True, stream=None)
            for m in METHODS:
                if asgi:
                    asgi_call(app, make_scope(method=m, path='/x'))
                else:
                    wsgi_call(app, make_environ(method=m, path='/x'))
            _APPS[asgi] = app
    return _APPS[asgi]


class FW:
    """wsgi.file_wrapper model"""

    def __init__(self, f, bs=8192):
        self.f = f
        self.bs = bs

    def __iter__(self):
        return self

    def __next__(self):
        d = self.f.read(self.bs)
        if not d:
            raise StopIteration
        return d

    def close(self):
        if hasattr(self.f, 'close'):
            self.f.close()


def response_case(asgi, si, mi, has_text, has_data, has_media, stream_kind, set_cl, set_ct, cookie, text, data, fail_at, fw, fail_send):
    app = _app(asgi)
    BOX.update(si=si, has_text=has_text, text=text, has_data=has_data, data=data, has_media=has_media, stream_kind=stream_kind,
               fail_at=fail_at, set_cl=set_cl, set_ct=set_ct, cookie=cookie, stream=None)
    failed = False
    send_failed = False
    try:
        if asgi:
            res = asgi_call(app, make_scope(method=METHODS[mi], path='/x'), fail_send_at=fail_send, send_error=OSError('gone'))
        else:
            res = wsgi_call(app, make_environ(method=METHODS[mi], path='/x'), file_wrapper=FW if fw else None)
    except ProtocolError as e:
        return fail(lambda: 'protocol breach: %s (config %r)' % (e, {k: v for k, v in BOX.items() if k != 'stream'}))
    except _Fail:
        failed = True
        res = None
    except OSError:
        send_failed = True
        res = None
    s = BOX.get('stream')
    code = CODES[si]
    bodiless = METHODS[mi] == 'HEAD' or code in (100, 101, 204, 304)
    if has_text:
        exp = text.encode('utf-8')
    elif has_data:
        exp = data
    elif has_media:
        exp = b'{"k": 1}'
    elif stream_kind:
        exp = None
    else:
        exp = b''
    uses_stream = exp is None and not bodiless
    closed = getattr(s, 'closed', None) if s is not None else None
    touched = False
    if s is not None:
        inner = getattr(s, '_f', s)
        touched = bool(getattr(inner, 'i', 0) or getattr(inner, 'n', 0))
    config_error = has_media and not has_text and not has_data and set_ct
    if closed is not None:
        # once streaming has begun (the stream was read at least once) close() must have been called exactly once --
        # whether streaming completed, the stream raised or the server's send failed
        if touched and closed != 1:
            return fail(lambda: 'stream was read but close() called %r times (stream failed=%r, send failed=%r, config %r)' % (
                closed, failed, send_failed, {k: v for k, v in BOX.items() if k != 'stream'}))
        if closed > 1:
            return fail(lambda: 'stream.close() called %r times' % (closed,))
    if res is None:
        if (failed and fail_at and (uses_stream or config_error)) or (send_failed and fail_send):
            return 1          # the injected fault propagated to the server after clean-up: fine
        return fail(lambda: 'unexpected failure without an injected fault (config %r)' % (BOX,))
    if config_error:
        # the configuration itself is an error: media with an explicit content type no handler supports -> 415
        # (what body accompanies it is C04's subject; here only protocol validity, already checked by the monitor)
        if res.status_code != 415:
            return fail(lambda: 'media with the unsupported content type x/y answered with %r, expected 415' % (res.status,))
        return 1
    if res.status_code != code:
        return fail(lambda: 'status %r sent as %r' % (STATUSES[si], res.status))
    hd = {}
    hl = res.headers if not asgi else [(k.decode('latin-1'), v.decode('latin-1')) for k, v in res.headers]
    for k, v in hl:
        k = k.lower()
        if k != 'set-cookie' and k in hd:
            return fail(lambda: 'header %r sent twice' % (k,))
        hd[k] = v
    body = res.body
    if bodiless and body:
        return fail(lambda: '%s %s answered with body bytes %r' % (METHODS[mi], res.status, body))
    if not bodiless and exp is not None:
        if body != exp:
            return fail(lambda: 'body %r, precedence text > data > media > stream demands %r' % (body, exp))
        if hd.get('content-length') != str(len(exp)):
            return fail(lambda: 'Content-Length %r for %d body bytes' % (hd.get('content-length'), len(exp)))
    if uses_stream and not fail_at and body != b'abc':
        return fail(lambda: 'streamed body %r' % (body,))
    if code in (204, 304):
        if 'content-type' in hd and not set_ct:
            if has_media and not has_text and not has_data and 'typeless-media-content-type' in LISTED:
                return 2   # known finding: media rendering defaults the content type before the typeless rule runs
            return fail(lambda: '%d response carries a framework-supplied Content-Type %r' % (code, hd['content-type']))
    elif 'content-type' not in hd:
        return fail(lambda: 'no Content-Type on a %d response' % code)
    if cookie and 'set-cookie' not in hd:
        return fail('cookie lost')
    if asgi:
        evs = res.events
        if not res.completed:
            return fail('ASGI response never completed (no final body event)')
        for ev in evs[1:-1]:
            if not ev.get('more_body'):
                return fail('a non-final body event has more_body false')
    return 1


def _known_typeless():
    out = []
    for asgi in (0, 1):
        app = _app(asgi)
        BOX.update(si=3, has_text=False, text='', has_data=False, data=b'', has_media=True, stream_kind=0, fail_at=0, set_cl=False,
                   set_ct=False, cookie=False, stream=None)
        if asgi:
            res = asgi_call(app, make_scope(path='/x'))
            ct = res.header('content-type')
        else:
            res = wsgi_call(app, make_environ(path='/x'))
            ct = res.header('content-type')
        out.append(ct is not None)
    return all(out), ('resp.status = 304 (or 204) with resp.media set and no explicit content type: the response carries '
                      'content-type: application/json, supplied by media rendering before the typeless-status rule runs (WSGI and ASGI)')


KNOWN = {'typeless-media-content-type': _known_typeless}


# ---------------------------------------------------------------- partitions
def _part(asgi, si, sk, mi, timeout):
    tag = 'asgi' if asgi else 'wsgi'
    args = 'has_text: bool, has_data: bool, has_media: bool, set_cl: bool, set_ct: bool, text: str, data: bytes'
    pre = ['len(text) <= 1 and len(data) <= 1', 'not (0xD800 <= ord(text[0]) <= 0xDFFF) if text else True']
    if sk:
        args += ', fail_at: int'
        pre.append('0 <= fail_at <= 3')
        fa = 'fail_at'
    else:
        fa = '0'
    if asgi:
        args += ', fail_send: int'
        pre.append('0 <= fail_send <= %d' % (3 if sk else 2))
        call = 'response_case(1, %d, %d, has_text, has_data, has_media, %d, set_cl, set_ct, True, text, data, %s, False, fail_send)' % (si, mi, sk, fa)
    else:
        args += ', fw: bool'
        call = 'response_case(0, %d, %d, has_text, has_data, has_media, %d, set_cl, set_ct, True, text, data, %s, fw, 0)' % (si, mi, sk, fa)
    src = '''
def h(%s) -> int:
    """
%s    post: _ != 0
    """
    return %s
''' % (args, ''.join('    pre: %s\n' % p for p in pre), call)
    return {'name': 'resp_%s_status%d_stream%d_%s' % (tag, si, sk, METHODS[mi]), 'fn': 'h', 'src': src, 'timeout': timeout,
            'bounds': '%s app, %s request, status %r, stream kind #%d (0 none, 1 iterable+close, 2 file-like, 3 %s); any subset of '
                      'text/data/media set at once, explicit Content-Length/Content-Type, a cookie, text and data of <= 1 free character/byte, '
                      'fault point: the k-th stream read raises (k symbolic)%s' % (
                          tag.upper(), METHODS[mi], STATUSES[si], sk, 'async generator' if asgi else 'file-like without close',
                          ', the k-th server send() raises (k symbolic)' if asgi else ', wsgi.file_wrapper present or not')}


# ---------------------------------------------------------------- SSE (ASGI only), on the deterministic loop
class _SSERes:
    async def on_get(self, req, resp):
        n = BOX['sse_n']

        async def emitter():
            for i in range(n):
                yield (falcon.asgi.SSEvent(data=b'x', event_id=str(i)) if i % 2 == 0 else None)
                if BOX['sse_fail'] == i + 1:
                    raise _Fail('emitter failed')
        resp.sse = emitter()
        if BOX['cookie']:
            resp.set_cookie('c', 'v')


_SSEAPP = []


def _sse_app():
    if not _SSEAPP:
        with notrace():
            app = falcon.asgi.App()
            app.add_route('/sse', _SSERes())
            _SSEAPP.append(app)
    return _SSEAPP[0]


def sse_case(n_events, disc_after, emitter_fail, choices):
    """An SSE response on the deterministic loop.  n_events: events the emitter yields; disc_after: the client's
    http.disconnect becomes deliverable once that many body events have been sent (-1: the client stays); emitter_fail: the
    emitter raises after that many events (0: never); choices: schedule (deliver the disconnect now vs run the next ready
    callback).  Monitor: one start, every body event but the last has more_body true, the response is terminated by a final
    body event unless the emitter itself failed, nothing after it."""
    from engine.envmodels import MiniLoop, running_loop
    app = _sse_app()
    BOX.update(sse_n=n_events, sse_fail=emitter_fail, cookie=True)
    loop = MiniLoop()
    sent = []
    pending = []
    st = {'first': True, 'ci': 0, 'delivered': False}

    async def receive():
        if st['first']:
            st['first'] = False
            return {'type': 'http.request', 'body': b'', 'more_body': False}
        f = loop.create_future()
        pending.append(f)
        return await f

    async def send(ev):
        sent.append(ev)
        await asyncio.sleep(0)      # a real server's send() may yield to the loop (flow control): other tasks get to run
    escaped = None
    with running_loop(loop):
        t = loop.create_task(app(make_scope(path='/sse'), receive, send))
        guard = 0
        while not t.done():
            guard += 1
            if guard > 400:
                return fail('SSE session: livelock')
            bodies = sum(1 for e in sent if e['type'] == 'http.response.body')
            can_deliver = bool(pending) and not st['delivered'] and disc_after >= 0 and bodies >= disc_after
            can_step = bool(loop._ready)
            if can_deliver and can_step:
                c = choices[st['ci']] if st['ci'] < len(choices) else True
                st['ci'] += 1
            elif can_deliver:
                c = True
            elif can_step:
                c = False
            else:
                return fail(lambda: 'SSE session blocked: events %r' % ([e['type'] for e in sent],))
            if c:
                f = pending.pop(0)
                st['delivered'] = True
                if not f.cancelled():
                    f.set_result({'type': 'http.disconnect'})
            else:
                loop.run_one()
        loop.drain()
        left = [getattr(x.get_coro(), '__qualname__', repr(x)) for x in loop.leftover_tasks()]
        try:
            t.result()
        except _Fail:
            escaped = 'emitter'
        except Exception as e:  # noqa
            escaped = type(e).__name__
    ctx = lambda: 'n_events=%r disconnect_after=%r emitter_fail=%r schedule=%r -> %r escaped=%r' % (  # noqa: E731
        n_events, disc_after, emitter_fail, choices, [(e['type'], e.get('more_body')) for e in sent], escaped)
    if escaped not in (None, 'emitter') or (escaped == 'emitter' and not (0 < emitter_fail <= n_events)):
        return fail(lambda: 'exception escaped the app: ' + ctx())
    # (tasks left behind -- `left` -- are not judged here: the property speaks about the events the server receives.  On the
    #  unchanged tree an emitter that raises leaves the disconnect watcher pending; recorded as an observation in DESIGN §10.3.)
    types = [e['type'] for e in sent]
    if types[:1] != ['http.response.start'] or types.count('http.response.start') != 1:
        return fail(lambda: 'start event missing or repeated: ' + ctx())
    bodies = [e for e in sent[1:]]
    if any(e['type'] != 'http.response.body' for e in bodies):
        return fail(lambda: 'unexpected event: ' + ctx())
    if escaped is None:
        if not bodies or bodies[-1].get('more_body', False):
            return fail(lambda: 'SSE response never terminated (no final body event with more_body false): ' + ctx())
    for e in bodies[:-1] if escaped is None else bodies:
        if not e.get('more_body', False):
            return fail(lambda: 'a non-final body event has more_body false: ' + ctx())
    n_data = len(bodies) - (1 if escaped is None else 0)
    if n_data > n_events:
        return fail(lambda: 'more events sent than emitted: ' + ctx())
    if disc_after < 0 and escaped is None and n_data != n_events:
        return fail(lambda: 'client connected throughout but %d of %d events sent: ' % (n_data, n_events) + ctx())
    return 1


def partitions(tier, seed):
    P = []
    q = tier == 'quick'
    nb = 6 if q else 10
    bits = ', '.join('c%d: bool' % i for i in range(nb))
    P.append({'name': 'sse_asgi', 'fn': 'h', 'timeout': 200 if q else 600, 'src': '''
def h(n: int, disc_after: int, emitter_fail: int, %s) -> int:
    \"\"\"
    pre: 0 <= n <= %d and -1 <= disc_after <= %d and 0 <= emitter_fail <= %d
    post: _ != 0
    \"\"\"
    return sse_case(n, disc_after, emitter_fail, [%s])
''' % (bits, 2 if q else 3, 2 if q else 3, 2 if q else 3, ', '.join('c%d' % i for i in range(nb))),
              'bounds': 'ASGI server-sent events on the deterministic loop: emitter of 0..%d events (SSEvent / None alternating), optionally '
                        'raising after the k-th, client disconnect deliverable after j body events (or never), %d schedule decisions '
                        '(deliver the disconnect vs next ready callback) -- all symbolic; event-sequence monitor, termination by a final '
                        'body event' % (2 if q else 3, nb)})
    n = 0
    for asgi in (0, 1):
        for si in range(len(STATUSES)):
            for sk in range(4):
                for mi in range(3):
                    n += 1
                    if q:
                        # quick: a covering selection -- every status, stream kind and method on both interfaces, main statuses fully
                        main = si in (0, 3)
                        if main:
                            if mi == 2 and sk not in (0, 1):
                                continue
                        elif not ((si + sk + mi + asgi) % 4 == 0):
                            continue
                    P.append(_part(asgi, si, sk, mi, 120 if q else 600))
    return P
