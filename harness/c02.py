"""C02 -- dispatch picks route, then sink/static by recency; 404/405/OPTIONS are exact.

Real code: App._get_responder / add_route / add_sink / add_static_route / _update_sink_and_static_routes,
routing.util.map_http_methods / set_default_responders, responders.*, ASGI twins.
Oracle: a reference dispatcher over the registration HISTORY (route masks everything; otherwise sinks and
static routes by recency in the configured kind order; 404), expected Allow sets, kwargs.
"""
import engine.loader as _l
_l.install()

import os  # noqa: E402

import falcon  # noqa: E402
import falcon.asgi  # noqa: E402

from engine.envmodels import asgi_call, make_environ, make_scope, wsgi_call  # noqa: E402
from engine.rt import fail, notrace, pick, pickb  # noqa: E402

PROPERTY = 'C02'
UNITS = ['falcon.app.App._get_responder/add_route/add_sink/add_static_route/_update_sink_and_static_routes',
         'falcon.routing.util.map_http_methods/set_default_responders', 'falcon.responders.*', 'falcon.asgi.app.App (same)',
         'falcon.routing.static.StaticRoute.match']
STUBS = [
    'registration histories, resource method subsets, request method and the request path (from a menu) are indexes: the solver '
    'enumerates every row and the app runs concretely outside tracing (finite table; stated in the evidence); the "sinkpath" '
    'partitions keep the path tail symbolic and run traced',
    'static routes serve harness/static_fixture (one 5-byte file)',
]
OUTSIDE = ['custom routers', 'resources with non-standard method maps', 'paths outside the menu except the symbolic sink tails']
BUDGET = {'quick': 420, 'thorough': 900}

FIXTURE = os.path.join(os.path.dirname(os.path.abspath(__file__)), 'static_fixture')
ALL_METHODS = ['GET', 'POST', 'DELETE', 'PUT', 'PATCH', 'HEAD', 'OPTIONS', 'CONNECT', 'TRACE', 'CHECKIN', 'REPORT', 'BREW', 'WEBSOCKET']
PATHS = ['/r', '/r/x', '/r/x/y', '/s/f.txt', '/s/missing', '/q/', '/nowhere', '/r/7']
# registration menu: (kind, arg)
REGS = [('route', '/r', None), ('route', '/r/{id}', 'item'), ('sink', '/r', 0), ('sink', '/r/x', 1), ('sink', '/r', 2),
        ('sink', '/(?P<a>\\w+)/', 3), ('static', '/s', None), ('static', '/r', None), ('sink', '/', 4)]


def _make_resource(mask, asgi):
    """mask bits: 0 GET, 1 POST, 2 DELETE, 3 own on_options, 4 also suffixed responders (item)."""
    ns = {}

    def mk(tag):
        if asgi:
            async def responder(self, req, resp, **kw):
                resp.text = 'route:%s:%s' % (tag, sorted(kw.items()))
        else:
            def responder(self, req, resp, **kw):
                resp.text = 'route:%s:%s' % (tag, sorted(kw.items()))
        return responder
    for bit, m in ((0, 'get'), (1, 'post'), (2, 'delete'), (3, 'options')):
        if mask & (1 << bit):
            ns['on_' + m] = mk(m)
            if mask & 16:
                ns['on_%s_item' % m] = mk(m + '_item')
    if mask & 16 and not (mask & 7):
        ns['on_get_item'] = mk('get_item')
    return type('Res', (), ns)()


def _make_sink(i, asgi):
    if asgi:
        async def sink(req, resp, **kw):
            resp.text = 'sink:%d:%s' % (i, sorted(kw.items()))
    else:
        def sink(req, resp, **kw):
            resp.text = 'sink:%d:%s' % (i, sorted(kw.items()))
    return sink


def build(asgi, history, mask, sbs):
    app = (falcon.asgi.App if asgi else falcon.App)(sink_before_static_route=sbs)
    res = _make_resource(mask, asgi)
    for ri in history:
        kind, arg, extra = REGS[ri]
        if kind == 'route':
            try:
                if extra:
                    app.add_route(arg, res, suffix=extra)
                else:
                    app.add_route(arg, res)
            except falcon.routing.util.SuffixedMethodNotFoundError:
                pass
        elif kind == 'sink':
            app.add_sink(_make_sink(extra, asgi), arg)
        else:
            app.add_static_route(arg, FIXTURE)
    return app


def implemented(mask, suffix):
    ms = []
    for bit, m in ((0, 'GET'), (1, 'POST'), (2, 'DELETE')):
        if mask & (1 << bit):
            ms.append(m)
    if suffix and (mask & 16) and not (mask & 7):
        ms.append('GET')
    own_options = bool(mask & 8)
    return ms, own_options


def reference(history, mask, sbs, method, path):
    """-> ('route', tag, kwargs) | ('405', allow set) | ('options', allow set) | ('sink', i, kwargs) | ('static',) | ('404',) | ('400',)"""
    import re
    if method == 'WEBSOCKET':
        return ('400',)
    # routes
    routed = None
    for ri in history:
        kind, arg, extra = REGS[ri]
        if kind != 'route':
            continue
        if extra and not (mask & 16):
            continue   # add_route with a suffix the resource does not implement is rejected
        if arg == '/r' and path == '/r':
            routed = (None, {})
        if arg == '/r/{id}' and path.startswith('/r/') and '/' not in path[3:] and path[3:]:
            routed = ('item', {'id': path[3:]})
    if routed is not None:
        suffix, kw = routed
        ms, own_options = implemented(mask, suffix)
        if method not in ALL_METHODS[:11]:
            return ('400',)
        if method in ms:
            return ('route', method.lower() + ('_item' if suffix else ''), kw)
        if method == 'OPTIONS':
            if own_options:
                return ('route', 'options' + ('_item' if suffix else ''), kw)
            return ('options', set(ms))
        return ('405', set(ms) | {'OPTIONS'})
    sinks = [(REGS[ri][1], REGS[ri][2]) for ri in history if REGS[ri][0] == 'sink'][::-1]
    statics = [REGS[ri][1] for ri in history if REGS[ri][0] == 'static'][::-1]
    order = [('sink', x) for x in sinks] + [('static', x) for x in statics]
    if not sbs:
        order = [('static', x) for x in statics] + [('sink', x) for x in sinks]
    for kind, x in order:
        if kind == 'sink':
            m = re.match(x[0], path)
            if m:
                return ('sink', x[1], m.groupdict())
        else:
            if path.startswith(x + '/'):
                return ('static', x)
    return ('404',)


def observe(res, asgi):
    body = res.body.decode('utf-8', 'replace')
    allow = res.header('Allow')
    return res.status_code, body, (set(a.strip() for a in allow.split(',') if a.strip()) if allow is not None else None)


def check(exp, obs, method, ctx):
    code, body, allow = obs
    kind = exp[0]
    if kind == 'route':
        want = 'route:%s:%s' % (exp[1], sorted(exp[2].items()))
        if code != 200 or (body != want and method != 'HEAD'):
            return fail(lambda: '%s: expected responder %r, got %r %r' % (ctx(), want, code, body))
    elif kind == '405':
        if code != 405 or allow != exp[1]:
            return fail(lambda: '%s: expected 405 with Allow %r, got %r Allow %r' % (ctx(), sorted(exp[1]), code, allow and sorted(allow)))
    elif kind == 'options':
        if code != 200 or allow != exp[1]:
            return fail(lambda: '%s: automatic OPTIONS expected 200 with Allow %r, got %r Allow %r' % (ctx(), sorted(exp[1]), code, allow and sorted(allow)))
    elif kind == 'sink':
        want = 'sink:%d:%s' % (exp[1], sorted(exp[2].items()))
        if code != 200 or (body != want and method != 'HEAD'):
            return fail(lambda: '%s: expected %r, got %r %r' % (ctx(), want, code, body))
    elif kind == 'static':
        # a matching static route owns the request: file, 404 for a missing file, or its OPTIONS answer -- never a sink
        if body.startswith('sink:') or body.startswith('route:'):
            return fail(lambda: '%s: expected the static route %r, got %r %r' % (ctx(), exp[1], code, body))
    elif kind == '404':
        if code != 404:
            return fail(lambda: '%s: expected 404, got %r %r' % (ctx(), code, body))
    elif kind == '400':
        if code != 400:
            return fail(lambda: '%s: expected 400, got %r' % (ctx(), code))
    return 1


def table_case(asgi, history, mask, sbs, mi, pi):
    mask, sbs, mi, pi = pick(mask, 0, 31), pickb(sbs), pick(mi, 0, len(ALL_METHODS) - 1), pick(pi, 0, len(PATHS) - 1)
    with notrace():
        key = (asgi, tuple(history), mask, sbs)
        if key not in _T_APPS:
            _T_APPS[key] = build(asgi, history, mask, sbs)
        app = _T_APPS[key]
        method, path = ALL_METHODS[mi], PATHS[pi]
        if asgi:
            res = asgi_call(app, make_scope(method=method, path=path))
        else:
            res = wsgi_call(app, make_environ(method=method, path=path))
        exp = reference(history, mask, sbs, method, path)
        return check(exp, observe(res, asgi), method,
                     lambda: '%s history=%r mask=%d sink_before_static_route=%r %s %s' % (
                         'ASGI' if asgi else 'WSGI', [REGS[i][:2] for i in history], mask, sbs, method, path))


_SP_APPS = {}
_T_APPS = {}


def sinkpath_case(asgi, history, sbs, tail, mi):
    """Traced: the path is '/r/' + a symbolic tail (or '/' + tail + '/'); sinks with regex prefixes and named groups."""
    for ch in tail:
        if ch == '/' or ord(ch) > 127 or ord(ch) < 33:
            return 2
    key = (asgi, tuple(history), sbs)
    if key not in _SP_APPS:
        with notrace():
            app = build(asgi, history, 1, sbs)
            for p in PATHS:
                if asgi:
                    asgi_call(app, make_scope(path=p))
                else:
                    wsgi_call(app, make_environ(path=p))
            _SP_APPS[key] = app
    app = _SP_APPS[key]
    method = ['GET', 'POST', 'DELETE'][mi]
    path = '/' + tail + '/'
    if asgi:
        res = asgi_call(app, make_scope(method=method, path=path))
    else:
        res = wsgi_call(app, make_environ(method=method, path=path))
    exp = reference(history, 1, sbs, method, path)
    return check(exp, observe(res, asgi), method, lambda: 'history=%r %s %r' % ([REGS[i][:2] for i in history], method, path))


# ---------------------------------------------------------------- partitions
def _tpart(asgi, history, timeout):
    src = '''
def h(mask: int, sbs: bool, mi: int, pi: int) -> int:
    """
    pre: 0 <= mask <= 31 and 0 <= mi < %d and 0 <= pi < %d
    post: _ != 0
    """
    return table_case(%d, %r, mask, sbs, mi, pi)
''' % (len(ALL_METHODS), len(PATHS), asgi, tuple(history))
    return {'name': 'table_%s_%s' % ('asgi' if asgi else 'wsgi', '-'.join(map(str, history))), 'fn': 'h', 'src': src, 'timeout': timeout,
            'bounds': '%s app built from the registration history %r; resource method subset (GET/POST/DELETE, own on_options, suffixed '
                      'responders: 32 masks), sink_before_static_route, request method (%d incl. WebDAV, unknown, WEBSOCKET) and path '
                      '(menu of %d) all chosen by the solver; one table row per path, run outside tracing' % (
                          'ASGI' if asgi else 'WSGI', [REGS[i][:2] for i in history], len(ALL_METHODS), len(PATHS))}


def partitions(tier, seed):
    P = []
    q = tier == 'quick'
    hist = [(0,), (0, 1), (2, 3, 4), (2, 6), (6, 2), (7, 2, 0), (5, 8), (8, 5), (3, 2), (1, 2, 7), (6, 7), (4, 3, 2), (0, 2, 6), (5, 6, 7)]
    if not q:
        import itertools
        hist = hist + [h for h in itertools.permutations(range(len(REGS)), 3) if h not in hist][::5]
        hist = hist + [(2, 3, 4, 6), (6, 2, 3, 4), (0, 1, 2, 6), (5, 8, 2, 3)]
    for i, h in enumerate(hist):
        for asgi in ((i % 2,) if q else (0, 1)):
            P.append(_tpart(asgi, h, 240 if q else 600))
    for i, h in enumerate([(5, 8), (8, 5), (5, 2), (2, 5, 6)]):
        for asgi in ((i % 2,) if q else (0, 1)):
            src = '''
def h(tail: str, sbs: bool, mi: int) -> int:
    """
    pre: 1 <= len(tail) <= 2 and 0 <= mi <= 2
    post: _ != 0
    """
    return sinkpath_case(%d, %r, True if sbs else False, tail, mi)
''' % (asgi, tuple(h))
            P.append({'name': 'sinkpath_%s_%s' % ('asgi' if asgi else 'wsgi', '-'.join(map(str, h))), 'fn': 'h', 'src': src, 'timeout': 200,
                      'bounds': 'traced: request path "/" + tail + "/" with a symbolic tail of 1-2 printable ASCII characters against sinks with '
                                'regex prefixes / named groups in history %r; kwargs and recency vs the reference dispatcher' % ([REGS[i][:2] for i in h],)})
    return P
