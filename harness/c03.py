"""C03 -- middleware, hooks and responder run in the documented stack order, once each; lifespan order.

Real code: falcon.App.__call__ / falcon.asgi.App.__call__ (whole apps), app_helpers.prepare_middleware,
hooks.before/after, asgi.App._call_lifespan_handlers.
Symbolic: one action code per call site (return / mark complete / raise HTTPError / raise an application
error that has a handler).  The real code consults an action only when the site is reached, so the path
tree is the set of distinguishable behaviours.  Shapes: method masks, middleware mode, routed/unrouted, interface.
Oracle: the documented stack discipline as a reference interpreter producing the expected call trace.
"""
import engine.loader as _l
_l.install()

import falcon  # noqa: E402
import falcon.asgi  # noqa: E402

from engine.envmodels import asgi_call, make_environ, make_scope, wsgi_call  # noqa: E402
from engine.rt import fail, notrace, run_coro  # noqa: E402

PROPERTY = 'C03'
UNITS = ['falcon.app.App.__call__', 'falcon.asgi.app.App.__call__', 'falcon.app_helpers.prepare_middleware',
         'falcon.hooks.before/after wrappers', 'falcon.asgi.app.App._call_lifespan_handlers']
STUBS = [
    'apps are built once per worker outside tracing; components read their action codes from a table the harness fills per path',
    'requests are driven by the harness WSGI driver / the ASGI trampoline driver',
]
OUTSIDE = ['more than 3 components', 'middleware that mutates the stacks at run time', 'more than one before and one after hook per responder '
           'in the quick tier']
BUDGET = {'quick': 300, 'thorough': 900}


class AppErr(Exception):
    pass


ACT = {}       # call-site -> action code, filled per path
TRACE = []


def _act(site, resp):
    a = ACT.get(site, 0)
    if a == 1:
        resp.complete = True
    elif a == 2:
        raise falcon.HTTPBadRequest()
    elif a == 3:
        raise AppErr()


def _mk_mw(i, mask, asgi):
    ns = {}
    if asgi:
        sfx = '_async' if i % 2 else ''
        if mask & 1:
            async def process_request(self, req, resp):
                TRACE.append(('req', i))
                _act(('req', i), resp)
            ns['process_request' + sfx] = process_request
        if mask & 2:
            async def process_resource(self, req, resp, resource, params):
                TRACE.append(('rsrc', i))
                _act(('rsrc', i), resp)
            ns['process_resource' + sfx] = process_resource
        if mask & 4:
            async def process_response(self, req, resp, resource, ok):
                TRACE.append(('resp', i, resource is not None, ok))
                a = ACT.get(('resp', i), 0)
                if a == 2:
                    raise falcon.HTTPBadRequest()
                if a == 3:
                    raise AppErr()
            ns['process_response' + sfx] = process_response
    else:
        if mask & 1:
            def process_request(self, req, resp):
                TRACE.append(('req', i))
                _act(('req', i), resp)
            ns['process_request'] = process_request
        if mask & 2:
            def process_resource(self, req, resp, resource, params):
                TRACE.append(('rsrc', i))
                _act(('rsrc', i), resp)
            ns['process_resource'] = process_resource
        if mask & 4:
            def process_response(self, req, resp, resource, ok):
                TRACE.append(('resp', i, resource is not None, ok))
                a = ACT.get(('resp', i), 0)
                if a == 2:
                    raise falcon.HTTPBadRequest()
                if a == 3:
                    raise AppErr()
            ns['process_response'] = process_response
    return type('MW%d' % i, (), ns)()


_APPS = {}


def _build(masks, independent, asgi, nbefore, nafter, placement=0):
    key = (tuple(masks), independent, asgi, nbefore, nafter, placement)
    if key in _APPS:
        return _APPS[key]
    with notrace():
        if asgi:
            async def before0(req, resp, resource, params):
                TRACE.append(('before', 0))
                _act(('before', 0), resp)

            async def before1(req, resp, resource, params):
                TRACE.append(('before', 1))
                _act(('before', 1), resp)

            async def after0(req, resp, resource):
                TRACE.append(('after', 0))
                _act(('after', 0), resp)

            async def after1(req, resp, resource):
                TRACE.append(('after', 1))
                _act(('after', 1), resp)

            async def on_get(self, req, resp):
                TRACE.append(('responder',))
                _act(('responder',), resp)

            async def handler(req, resp, ex, params):
                TRACE.append(('handler',))
                resp.status = 299
        else:
            def before0(req, resp, resource, params):
                TRACE.append(('before', 0))
                _act(('before', 0), resp)

            def before1(req, resp, resource, params):
                TRACE.append(('before', 1))
                _act(('before', 1), resp)

            def after0(req, resp, resource):
                TRACE.append(('after', 0))
                _act(('after', 0), resp)

            def after1(req, resp, resource):
                TRACE.append(('after', 1))
                _act(('after', 1), resp)

            def on_get(self, req, resp):
                TRACE.append(('responder',))
                _act(('responder',), resp)

            def handler(req, resp, ex, params):
                TRACE.append(('handler',))
                resp.status = 299
        fn = on_get
        # decorators apply bottom-up: the LAST listed before hook runs first ... so wrap explicitly in order
        # placement 0: hooks on the responder method; 1: the same hooks as class decorators on the class that defines the
        # responder; 2: as class decorators on a subclass that only inherits the responder
        if placement == 0:
            for k in range(nafter):
                fn = falcon.after([after0, after1][k])(fn)
            for k in reversed(range(nbefore)):
                fn = falcon.before([before0, before1][k])(fn)
            Res = type('Res', (), {'on_get': fn})
        else:
            Res = type('Res', (), {'on_get': fn})
            if placement == 2:
                Res = type('SubRes', (Res,), {})
            for k in range(nafter):
                Res = falcon.after([after0, after1][k])(Res)
            for k in reversed(range(nbefore)):
                Res = falcon.before([before0, before1][k])(Res)
        app = (falcon.asgi.App if asgi else falcon.App)(middleware=[_mk_mw(i, m, asgi) for i, m in enumerate(masks)],
                                                          independent_middleware=independent)
        app.add_error_handler(AppErr, handler)
        app.add_route('/x', Res())
        # warm-up: router compilation and memo caches
        ACT.clear()
        _drive(app, asgi, True)
        _drive(app, asgi, False)
        del TRACE[:]
        _APPS[key] = app
    return app


def _drive(app, asgi, routed):
    path = '/x' if routed else '/nope'
    if asgi:
        return asgi_call(app, make_scope(path=path))
    return wsgi_call(app, make_environ(path=path))


def oracle(acts, masks, independent, routed, nbefore, nafter):
    """The documented stack discipline.  acts: dict site -> code."""
    t = []
    n = len(masks)
    failed = False
    complete = False
    queued = []
    stop = False

    def A(site):
        return acts.get(site, 0)
    for i in range(n):
        has_req = bool(masks[i] & 1)
        has_resp = bool(masks[i] & 4)
        if independent:
            if has_req and not stop:
                t.append(('req', i))
                a = A(('req', i))
                if a >= 2:
                    failed = True
                    stop = True
                    if a == 3:
                        t.append(('handler',))
                elif a == 1:
                    complete = True
                    stop = True
        else:
            if not stop:
                if has_req and not complete:
                    t.append(('req', i))
                    a = A(('req', i))
                    if a >= 2:
                        failed = True
                        stop = True
                        if a == 3:
                            t.append(('handler',))
                        continue
                    elif a == 1:
                        complete = True
                if has_resp:
                    queued.insert(0, i)
    resource = False
    if not failed and not complete:
        if routed:
            resource = True
            for i in range(n):
                if masks[i] & 2:
                    t.append(('rsrc', i))
                    a = A(('rsrc', i))
                    if a >= 2:
                        failed = True
                        if a == 3:
                            t.append(('handler',))
                        break
                    if a == 1:
                        complete = True
                        break
            if not failed and not complete:
                a = 0
                for k in range(nbefore):
                    t.append(('before', k))
                    a = A(('before', k))
                    if a >= 2:
                        failed = True
                        break
                if not failed:
                    t.append(('responder',))
                    a = A(('responder',))
                    if a >= 2:
                        failed = True
                    else:
                        for k in range(nafter):
                            t.append(('after', k))
                            a = A(('after', k))
                            if a >= 2:
                                failed = True
                                break
                if failed and a == 3:
                    t.append(('handler',))
        else:
            failed = True    # the default 404 responder raises
    ok = not failed
    order = [i for i in reversed(range(n)) if masks[i] & 4] if independent else queued
    for i in order:
        t.append(('resp', i, resource, ok))
        a = A(('resp', i))
        if a >= 2:
            ok = False
            if a == 3:
                t.append(('handler',))
    return t


SITES2 = [('req', 0), ('rsrc', 0), ('resp', 0), ('req', 1), ('rsrc', 1), ('resp', 1)]


def stack_case(asgi, masks, independent, routed, nbefore, nafter, codes, hook_codes, placement=0):
    """codes: action per middleware site in order (req_i, rsrc_i, resp_i)*; hook_codes: before*, responder, after*"""
    app = _build(masks, independent, asgi, nbefore, nafter, placement)
    acts = {}
    n = len(masks)
    k = 0
    for i in range(n):
        for ph in ('req', 'rsrc', 'resp'):
            c = codes[k]
            k += 1
            if ph == 'resp' and c == 1:
                c = 0       # "complete" is meaningless in process_response
            acts[(ph, i)] = c
    j = 0
    for b in range(nbefore):
        acts[('before', b)] = hook_codes[j]
        j += 1
    acts[('responder',)] = hook_codes[j]
    j += 1
    for b in range(nafter):
        acts[('after', b)] = hook_codes[j]
        j += 1
    ACT.clear()
    ACT.update(acts)
    del TRACE[:]
    _drive(app, asgi, routed)   # an exception escaping the app fails the harness
    got = list(TRACE)
    exp = oracle(acts, masks, independent, routed, nbefore, nafter)
    if got != exp:
        return fail(lambda: '%s masks=%r independent=%r routed=%r actions=%r:\n  calls made     %r\n  stack discipline %r' % (
            'ASGI' if asgi else 'WSGI', masks, independent, routed, {k: v for k, v in acts.items() if v}, got, exp))
    return 1


# ---------------------------------------------------------------- lifespan
LS_TRACE = []
LS_ACT = {}


def _mk_ls(i, has_start, has_stop):
    ns = {}
    if has_start:
        async def process_startup(self, scope, event):
            LS_TRACE.append(('startup', i))
            if LS_ACT.get(('startup', i)):
                raise RuntimeError('boom')
        ns['process_startup'] = process_startup
    if has_stop:
        async def process_shutdown(self, scope, event):
            LS_TRACE.append(('shutdown', i))
            if LS_ACT.get(('shutdown', i)):
                raise RuntimeError('boom')
        ns['process_shutdown'] = process_shutdown
    return type('LS%d' % i, (), ns)()


_LS_APPS = {}


def lifespan_case(masks, fail_start, fail_stop, do_shutdown):
    """masks[i]: bit0 process_startup, bit1 process_shutdown; fail_*: component index that raises (-1 none)."""
    key = tuple(masks)
    if key not in _LS_APPS:
        with notrace():
            _LS_APPS[key] = falcon.asgi.App(middleware=[_mk_ls(i, m & 1, m & 2) for i, m in enumerate(masks)])
    app = _LS_APPS[key]
    n = len(masks)
    LS_ACT.clear()
    if 0 <= fail_start < n:
        LS_ACT[('startup', fail_start)] = 1
    if 0 <= fail_stop < n:
        LS_ACT[('shutdown', fail_stop)] = 1
    del LS_TRACE[:]
    events = [{'type': 'lifespan.startup'}]
    if do_shutdown:
        events.append({'type': 'lifespan.shutdown'})
    sent = []
    state = {'i': 0}

    class _Stop(Exception):
        pass

    async def receive():
        if state['i'] < len(events):
            ev = events[state['i']]
            state['i'] += 1
            return ev
        raise _Stop()   # the server cancels the lifespan task

    async def send(ev):
        sent.append(ev['type'])
    scope = {'type': 'lifespan', 'asgi': {'version': '3.0', 'spec_version': '2.0'}}
    try:
        run_coro(app(scope, receive, send))
    except _Stop:
        pass
    exp_trace = []
    exp_sent = []
    ok = True
    for i in range(n):
        if masks[i] & 1:
            exp_trace.append(('startup', i))
            if i == fail_start:
                ok = False
                break
    exp_sent.append('lifespan.startup.complete' if ok else 'lifespan.startup.failed')
    if ok and do_shutdown:
        ok2 = True
        for i in reversed(range(n)):
            if masks[i] & 2:
                exp_trace.append(('shutdown', i))
                if i == fail_stop:
                    ok2 = False
                    break
        exp_sent.append('lifespan.shutdown.complete' if ok2 else 'lifespan.shutdown.failed')
    if LS_TRACE != exp_trace or sent != exp_sent:
        return fail(lambda: 'lifespan masks=%r fail_start=%r fail_stop=%r: calls %r events %r; expected %r / %r' % (
            masks, fail_start, fail_stop, LS_TRACE, sent, exp_trace, exp_sent))
    return 1


# ---------------------------------------------------------------- partitions
def _stack_part(asgi, masks, independent, routed, nb, na, timeout, placement=0):
    n = len(masks)
    ncodes = 3 * n
    nh = nb + 1 + na
    args = ', '.join(['c%d: int' % i for i in range(ncodes)] + ['k%d: int' % i for i in range(nh)])
    pre = ''.join('    pre: 0 <= c%d <= 3\n' % i for i in range(ncodes)) + ''.join('    pre: 0 <= k%d <= 3\n' % i for i in range(nh))
    src = '''
def h(%s) -> int:
    """
%s    post: _ != 0
    """
    return stack_case(%d, %r, %r, %r, %d, %d, [%s], [%s], %d)
''' % (args, pre, asgi, tuple(masks), independent, routed, nb, na, ', '.join('c%d' % i for i in range(ncodes)),
       ', '.join('k%d' % i for i in range(nh)), placement)
    return {'name': 'stack_%s_m%s_%s_%s_b%da%d%s' % ('asgi' if asgi else 'wsgi', ''.join(map(str, masks)), 'ind' if independent else 'dep',
                                                    'routed' if routed else 'unrouted', nb, na, ['', '_clshook', '_subclshook'][placement]),
            'fn': 'h', 'src': src, 'timeout': timeout,
            'bounds': '%s app, %d middleware components implementing the method subsets %r (bit0 request, bit1 resource, bit2 response), '
                      'independent_middleware=%r, %s request, %d before / %d after hooks (%s); one action code in {return, complete, raise '
                      'HTTPError, raise handled application error} per call site, all symbolic' % (
                          'ASGI' if asgi else 'WSGI', n, tuple(masks), independent, 'routed' if routed else 'unrouted', nb, na,
                          ['on the responder method', 'as class decorators on the defining class',
                           'as class decorators on a subclass that inherits the responder'][placement])}


def partitions(tier, seed):
    P = []
    q = tier == 'quick'
    if q:
        mask_pairs = [(7, 7), (5, 7), (7, 4), (3, 5), (1, 4), (4, 1), (6, 7)]
        for mi, masks in enumerate(mask_pairs):
            for independent in (True, False):
                for asgi in (0, 1):
                    if (mi + independent + asgi) % 2:
                        continue
                    P.append(_stack_part(asgi, masks, independent, True, 1, 1, 200))
        for asgi in (0, 1):
            P.append(_stack_part(asgi, (7, 7), bool(asgi), False, 1, 1, 120))
            P.append(_stack_part(asgi, (5, 7), not bool(asgi), True, 2, 2, 200))
            P.append(_stack_part(asgi, (4,), True, True, 2, 1, 120, 1 + asgi))
            P.append(_stack_part(asgi, (4,), True, True, 1, 2, 120, 2 - asgi))
            # hooks of one kind only on an inheriting subclass: the other kind must not be what makes the responder visible
            P.append(_stack_part(asgi, (4,), True, True, 1 + asgi, 0, 100, 2))
            P.append(_stack_part(asgi, (4,), True, True, 0, 2 - asgi, 100, 2))
    else:
        for m0 in range(1, 8):
            for m1 in range(1, 8):
                for independent in (True, False):
                    for asgi in (0, 1):
                        P.append(_stack_part(asgi, (m0, m1), independent, True, 1, 1, 600))
        for asgi in (0, 1):
            for independent in (True, False):
                P.append(_stack_part(asgi, (7, 7), independent, False, 1, 1, 300))
                P.append(_stack_part(asgi, (7, 7), independent, True, 2, 2, 900))
                P.append(_stack_part(asgi, (7, 7, 7), independent, True, 1, 1, 1500))
                P.append(_stack_part(asgi, (5, 7, 3), independent, True, 0, 0, 1500))
                for placement in (1, 2):
                    P.append(_stack_part(asgi, (7,), independent, True, 2, 2, 300, placement))
                    P.append(_stack_part(asgi, (7,), independent, True, 2, 0, 300, placement))
                    P.append(_stack_part(asgi, (7,), independent, True, 0, 2, 300, placement))
    ls = [(3, 3), (1, 2), (3, 1, 2)] if q else [(a, b, c) for a in range(1, 4) for b in range(1, 4) for c in range(1, 4)]  # 0 = no method: falcon rejects such a component
    for masks in ls:
        src = '''
def h(fail_start: int, fail_stop: int, do_shutdown: bool) -> int:
    """
    pre: -1 <= fail_start <= %d and -1 <= fail_stop <= %d
    post: _ != 0
    """
    return lifespan_case(%r, fail_start, fail_stop, do_shutdown)
''' % (len(masks), len(masks), tuple(masks))
        P.append({'name': 'lifespan_m%s' % ''.join(map(str, masks)), 'fn': 'h', 'src': src, 'timeout': 120,
                  'bounds': 'ASGI lifespan with %d components (bit0 process_startup, bit1 process_shutdown: %r); the failing startup / shutdown '
                            'handler index and the presence of the shutdown event are symbolic' % (len(masks), tuple(masks))})
    return P
