"""C11 -- content negotiation and media-handler resolution follow RFC 9110 precedence.

Decided compositionally (see DESIGN.md C11):
  A pair score      _MediaRange.match_score(media type)        vs the documented 5-tuple
  B aggregation     quality() with symbolic score tuples        -> q of the lexicographically greatest tuple
  C selection       best_match() with symbolic qualities        -> first candidate of maximal quality > 0
  D integration     quality()/best_match()/Request.client_accepts/client_prefers on menus vs a reference matcher
  E parser layer    parse_header/_MediaType.parse/_MediaRange.parse on symbolic text: documented errors only,
                    reference parse when the text has no quotes
  F handlers        media.Handlers histories interleaved with _resolve() vs a plain-dict mirror (stale cache)
"""
import engine.loader as _l
_l.install()

import falcon  # noqa: E402
import falcon.errors as ferrors  # noqa: E402
import falcon.media  # noqa: E402
import falcon.util.mediatypes as MT  # noqa: E402
from falcon.media.handlers import Handlers  # noqa: E402

from engine.envmodels import make_environ  # noqa: E402
from engine.rt import fail, notrace, pick, pickb  # noqa: E402

PROPERTY = 'C11'
UNITS = ['falcon.util.mediatypes._MediaRange.match_score', 'mediatypes.quality', 'mediatypes.best_match',
         'mediatypes.parse_header', 'mediatypes._parse_media_type_header', 'mediatypes._MediaRange.parse',
         'mediatypes._MediaType.parse', 'falcon.media.handlers.Handlers (+ _resolve cache)',
         'falcon.request.Request.client_accepts/client_prefers']
STUBS = [
    'q values are symbolic INTEGERS standing for q*1000 in obligations A-C (the code only orders and returns q; CrossHair never '
    'confirms symbolic floats)',
    'functools.lru_cache layers of quality/_parse_media_type/_parse_media_ranges are bypassed via __wrapped__ in A-E (a symbolic str '
    'cache key is realized); the Handlers harness keeps its LRU cache, which is the subject: CrossHair replaces lru_cache calls made from '
    'traced code by the wrapped function, so handlers_case realizes its menu indices through the solver (pick) and calls _resolve outside '
    'tracing, on the real cache',
    'B: _parse_media_ranges/_parse_media_type replaced by fakes returning symbolic score tuples; C: quality replaced by a symbolic table',
    'parameter NAMES and handler keys come from menus (dict/frozenset keys are realized); parameter values and type names are symbolic',
    'E: symbolic header text over the alphabet { ; = " \\ space a q / * , . 0 1 } (names become dict keys)',
]
OUTSIDE = ['q values as arbitrary decimals (float parsing realizes its input): menu of spellings in D',
           'Handlers |= other (not in the property list)', 'Accept headers outside the D menus / E alphabet and length bound']
BUDGET = {'quick': 300, 'thorough': 900}


# ---------------------------------------------------------------- A: pair score
KEYSETS = [(), ('v',), ('w',), ('v', 'w')]


def pair_case(rm, rs, tm, ts, rk, tk, rv, rw, tv, tw, q):
    rparams = {}
    tparams = {}
    for name in KEYSETS[rk]:
        rparams[name] = rv if name == 'v' else rw
    for name in KEYSETS[tk]:
        tparams[name] = tv if name == 'v' else tw
    got = MT._MediaRange(rm, rs, q, rparams).match_score(MT._MediaType(tm, ts, tparams))
    # the documented 5-tuple
    NOT = (-1, -1, -1, -1, 0.0)
    if rm == '*' or tm == '*':
        c1 = 0
    elif rm == tm:
        c1 = 1
    else:
        c1 = None
    if rs == '*' or ts == '*':
        c2 = 0
    elif rs == ts:
        c2 = 1
    else:
        c2 = None
    exp = None
    if c1 is None or c2 is None:
        exp = NOT
    else:
        rn, tn = set(KEYSETS[rk]), set(KEYSETS[tk])
        common = rn & tn
        ok = True
        for name in common:
            a = rv if name == 'v' else rw
            b = tv if name == 'v' else tw
            if a != b:
                ok = False
        if not ok:
            exp = NOT
        else:
            exp = (c1, c2, 1 if rn == tn else 0, len(common), q)
    if tuple(got) != exp:
        return fail(lambda: 'match_score(range %s/%s;%r;q=%r, type %s/%s;%r) = %r, documented score %r' % (
            rm, rs, rparams, q, tm, ts, tparams, got, exp))
    return 1


# ---------------------------------------------------------------- B: aggregation
class _FakeRange:
    def __init__(self, score):
        self.score = score

    def match_score(self, media_type):
        return self.score


def aggregate_case(n, scores):
    """scores: list of 5-int tuples (first four in -1..1 / 0..2, last = q*1000); (-1,-1,-1,-1,0) = no match."""
    ranges = tuple(_FakeRange(s) for s in scores[:n])
    saved = (MT._parse_media_type, MT._parse_media_ranges)
    MT._parse_media_type = lambda mt: None
    MT._parse_media_ranges = lambda header: ranges
    try:
        got = MT.quality.__wrapped__('x/y', 'fake')
    finally:
        MT._parse_media_type, MT._parse_media_ranges = saved
    best = None
    for s in scores[:n]:
        if best is None or s[:4] > best[:4] or (s[:4] == best[:4] and s[4] > best[4]):
            best = s
    if got != best[4]:
        return fail(lambda: 'quality() over scores %r = %r, q of the most specific range is %r' % (scores[:n], got, best[4]))
    return 1


# ---------------------------------------------------------------- C: selection
def select_case(n, qs, raises):
    cands = ['c0', 'c1', 'c2'][:n]
    QV = (0.0, 0.001, 0.5, 0.5, 1.0)
    qs = [QV[x] for x in qs]  # concrete floats chosen by symbolic indexes (best_match compares with the float 0.0)
    table = {}
    for i in range(n):
        table[cands[i]] = qs[i]
    saved = MT.quality

    def fake_quality(media_type, header):
        return table[media_type]
    MT.quality = fake_quality
    try:
        got = MT.best_match(cands, 'fake')
    finally:
        MT.quality = saved
    exp = ''
    bestq = 0.0
    for i in range(n):
        if qs[i] > bestq:
            bestq = qs[i]
            exp = cands[i]
    if got != exp:
        return fail(lambda: 'best_match over qualities %r = %r, expected %r (first candidate of maximal quality > 0)' % (qs[:n], got, exp))
    return 1


# ---------------------------------------------------------------- D: integration on menus vs a reference matcher
def _ref_parse(item):
    parts = [p.strip() for p in item.split(';')]
    full = parts[0]
    if full == '*':
        full = '*/*'
    if '/' not in full:
        return None
    main, _, sub = full.partition('/')
    params = {}
    for p in parts[1:]:
        if '=' in p:
            k, _, v = p.partition('=')
            v = v.strip()
            if len(v) >= 2 and v[0] == '"' and v[-1] == '"':
                v = v[1:-1]
            params[k.strip().lower()] = v
    return main.strip(), sub.strip(), params


def ref_quality(media_type, header):
    """-> float quality, or 'bad-range' / 'bad-type' for the documented value errors."""
    mt = _ref_parse(media_type)
    if mt is None:
        return 'bad-type'
    best = None
    for item in header.split(','):
        r = _ref_parse(item)
        if r is None:
            return 'bad-range'
        q = 1.0
        if 'q' in r[2]:
            try:
                q = float(r[2].pop('q'))
            except ValueError:
                return 'bad-range'
            if not (0.0 <= q <= 1.0):
                return 'bad-range'
        if not (r[0] == '*' or mt[0] == '*' or r[0] == mt[0]):
            continue
        if not (r[1] == '*' or mt[1] == '*' or r[1] == mt[1]):
            continue
        common = set(r[2]) & set(mt[2])
        if any(r[2][k] != mt[2][k] for k in common):
            continue
        score = (0 if '*' in (r[0], mt[0]) else 1, 0 if '*' in (r[1], mt[1]) else 1,
                 1 if set(r[2]) == set(mt[2]) else 0, len(common), q)
        if best is None or score > best:
            best = score
    return best[4] if best else 0.0


TYPES = ['text/plain', 'text/plain; format=flowed', 'text/html', 'application/json', 'application/json; v=1',
         'application/json;v=2;w=1', 'a/b+json', 'image/png', '*/*', 'text/*', 'nonsense', 'text/plain; format=fixed', 'text/html;level=1']
ACCEPTS = [
    '*/*', 'text/*', 'text/plain', 'text/plain;q=0', 'text/*;q=0.5, text/plain;q=0.1', 'text/plain;q=0.9, text/plain; format=flowed; charset=utf-8;q=0.1',
    'text/plain; format=flowed;q=0.3, text/plain;q=0.7', 'application/json; v=1', 'application/json; v="1"', 'application/json;v=2',
    'application/json;q=0.2, application/json;v=2;w=1;q=0.6', '*/*;q=0.1, text/html', 'text/html;q=0, */*;q=0.4', 'image/*;q=1.000',
    'text/plain;q=1.5', 'text/plain;q=abc', 'text/plain;q=', 'text', '', 'text/plain, ,text/html', ' text/plain ; q=0.5 ,text/html',
    'text/plain;q=0.001', 'TEXT/PLAIN', 'text/plain;FORMAT=flowed', 'a/b+json;q=0.5, a/*;q=0.4', 'text/plain;q=0.5;q=0.7',
    # q is an ordinary position-independent parameter of a range: parameters written after it still belong to the range
    'text/plain;q=1.0;format=flowed', 'text/html;q=0.1;level=1, text/html;q=0.9', 'application/json;q=0.5;v=2;w=1, application/json;q=0.4',
]


def quality_menu_case(ti, ai):
    mt, hdr = TYPES[ti], ACCEPTS[ai]
    exp = ref_quality(mt, hdr)
    try:
        got = MT.quality.__wrapped__(mt, hdr)
    except ferrors.InvalidMediaRange:
        got = 'bad-range'
    except ferrors.InvalidMediaType:
        got = 'bad-type'
    if exp == 'bad-type' and got == 'bad-range':
        got = exp  # a header with a bad range AND a bad type: either documented error is acceptable
    if exp == 'bad-range' and got == 'bad-type':
        got = exp
    if got != exp:
        return fail(lambda: 'quality(%r, %r) = %r, reference matcher %r' % (mt, hdr, got, exp))
    return 1


CAND_LISTS = [(0, 2, 3), (3, 0), (1, 0), (0, 1), (4, 5, 3), (6, 7), (2,), (), (11, 1, 0), (7, 3, 2, 0), (12, 2), (11, 1)]


def best_menu_case(ci, ai):
    cands = [TYPES[i] for i in CAND_LISTS[ci]]
    hdr = ACCEPTS[ai]
    exp = ''
    bq = 0.0
    bad = None
    for c in cands:
        qv = ref_quality(c, hdr)
        if isinstance(qv, str):
            bad = qv
            break
        if qv > bq:
            bq = qv
            exp = c
    try:
        got = MT.best_match(cands, hdr)
    except ferrors.InvalidMediaRange:   # the documented value errors (InvalidMediaRange is an InvalidMediaType)
        got = 'bad-range'
    except ferrors.InvalidMediaType:
        got = 'bad-type'
    if bad is not None:
        exp = bad
    if got != exp:
        return fail(lambda: 'best_match(%r, %r) = %r, reference %r' % (cands, hdr, got, exp))
    # request-level wrappers
    req = falcon.Request(make_environ(headers=[('Accept', hdr)]))
    if not hdr:
        return 1  # an empty Accept header field means "anything" at the request level (documented default */*)
    for c in cands:
        qv = ref_quality(c, hdr)
        want = (not isinstance(qv, str)) and qv > 0.0
        try:
            ca = req.client_accepts(c)
        except Exception as e:  # noqa
            return fail(lambda: 'client_accepts(%r) with Accept %r raised %r' % (c, hdr, e))
        if isinstance(qv, str):
            if ca is not False:
                return fail(lambda: 'client_accepts(%r) True for an invalid Accept %r' % (c, hdr))
        elif ca != want:
            return fail(lambda: 'client_accepts(%r) with Accept %r = %r, reference quality %r' % (c, hdr, ca, qv))
    if cands and bad is None:
        cp = req.client_prefers(cands)
        if (cp or '') != exp:
            return fail(lambda: 'client_prefers(%r) with Accept %r = %r, reference %r' % (cands, hdr, cp, exp))
    return 1


# ---------------------------------------------------------------- E: parser layer
ALPHA = ';="\\ aq/*,.01'


def _in_alpha(s):
    for ch in s:
        if ch not in ALPHA:
            return False
    return True


def ref_parse_header_noquote(line):
    """char-level reference for text without quotes/backslashes -> (key, [(name, value)...]) (later names win)."""
    segs = []
    cur = ''
    for ch in line:
        if ch == ';':
            segs.append(cur)
            cur = ''
        else:
            cur = cur + ch
    segs.append(cur)
    key = segs[0].strip()
    params = {}
    for seg in segs[1:]:
        i = seg.find('=')
        if i >= 0:
            params[seg[:i].strip().lower()] = seg[i + 1:].strip()
    return key, params


def parser_case(s, which):
    if not _in_alpha(s):
        return 2
    if which == 0:
        key, params = MT.parse_header(s)
        if '"' not in s and '\\' not in s:
            ek, ep = ref_parse_header_noquote(s)
            if key != ek or params != ep:
                return fail(lambda: 'parse_header(%r) = %r, reference %r' % (s, (key, params), (ek, ep)))
        return 1
    if which == 1:
        try:
            mt = MT._MediaType.parse(s)
        except ferrors.InvalidMediaType:
            return 1
        if not isinstance(mt.main_type, str) or not isinstance(mt.params, dict):
            return fail('bad _MediaType')
        return 1
    try:
        mr = MT._MediaRange.parse(s)
    except ferrors.InvalidMediaRange:
        return 1
    if not (0.0 <= mr.quality <= 1.0):
        return fail(lambda: '_MediaRange.parse(%r) accepted quality %r' % (s, mr.quality))
    return 1


# ---------------------------------------------------------------- F: handlers
class _H(falcon.media.BaseHandler):
    def __init__(self, tag):
        self.tag = tag

    def serialize(self, media, content_type):
        return b''

    def deserialize(self, stream, content_type, content_length):
        return None


class _IterFail(Exception):
    pass


HKEYS = ['application/json', 'application/x', 'a/*', 'application/x; v=2']
RESOLVE_TYPES = [None, '*/*', 'application/json', 'application/json; charset=utf-8', 'application/x', 'a/b', 'a/b+json',
                 'text/plain', 'application/*', 'application/x; v=1', 'application/x;v=2', 'application/x; v=2; charset=utf-8',
                 'application/x; q=0']
H_OPS = {0: 'set', 1: 'del', 2: 'update', 3: 'pop', 4: 'clear', 5: 'setdefault', 6: 'copy-mutate-copy', 7: 'copy-mutate-orig',
         8: 'resolve', 9: 'update-from-failing-iterable', 10: 'ior', 11: 'copy.copy-mutate-both'}


def _ref_resolve(mirror, media_type, default):
    if media_type == '*/*' or not media_type:
        media_type = default
    if media_type in mirror and mirror[media_type]:
        return mirror[media_type]
    best = None
    bq = 0.0
    for k in mirror:
        qv = ref_quality(k, media_type)
        if isinstance(qv, str):
            return None
        if qv > bq:
            bq = qv
            best = k
    return mirror[best] if best is not None else None


def _resolve_cached(h, t, default, rnf):
    """Handlers._resolve with ITS lru cache in effect: CrossHair replaces every functools.lru_cache call made from traced code
    by a call of the wrapped function (cache skipped), which would hide exactly the stale-cache behaviour under test.  All
    arguments are concrete here (solver-picked menu indices), so the call runs outside tracing, on the real C wrapper."""
    with notrace():
        return h._resolve(t, default, rnf)


def handlers_case(ops, keys, rts, raise_not_found):
    """ops: op codes; keys[i]: key index for op i; rts[i]: resolve-type index used by op 8 and by the check after each op."""
    keys = [pick(k, 0, len(HKEYS) - 1) for k in keys]
    rts = [pick(r, 0, len(RESOLVE_TYPES) - 1) for r in rts]
    raise_not_found = pickb(raise_not_found)
    h = Handlers({HKEYS[0]: _H('j0')})
    mirror = {HKEYS[0]: h.data[HKEYS[0]]}
    active_h, active_m = h, mirror
    n = 0
    for i, op in enumerate(ops):
        k = HKEYS[keys[i]]
        n += 1
        new = _H('n%d' % n)
        if op == 0:
            active_h[k] = new
            active_m[k] = new
        elif op == 1:
            if k in active_m:
                del active_h[k]
                del active_m[k]
        elif op == 2:
            active_h.update({k: new})
            active_m[k] = new
        elif op == 3:
            active_h.pop(k, None)
            active_m.pop(k, None)
        elif op == 4:
            active_h.clear()
            active_m.clear()
        elif op == 5:
            active_h.setdefault(k, new)
            active_m.setdefault(k, new)
        elif op == 9:
            # update() from an iterable that raises after its first pair: the pair that was stored counts
            def _pairs(k=k, new=new):
                yield (k, new)
                raise _IterFail()
            try:
                active_h.update(_pairs())
            except _IterFail:
                pass
            active_m[k] = new
        elif op == 10:
            active_h |= {k: new}
            active_m[k] = new
        elif op == 11:
            import copy as _copy
            c = _copy.copy(active_h)
            cm = dict(active_m)
            c[k] = new              # the copy resolves by its own mapping ...
            cm[k] = new
            newer = _H('o%d' % n)
            active_h[HKEYS[0]] = newer   # ... and does not follow the original
            active_m[HKEYS[0]] = newer
            t = RESOLVE_TYPES[rts[i]]
            got = _resolve_cached(c, t, HKEYS[0], False)[0]
            exp = _ref_resolve(cm, t, HKEYS[0])
            if got is not exp:
                return fail(lambda: 'copy.copy(handlers) resolved %r to %r; its own mapping %r designates %r' % (
                    t, getattr(got, 'tag', type(got).__name__), {kk: vv.tag for kk, vv in cm.items()}, getattr(exp, 'tag', None)))
        elif op == 6:
            c = active_h.copy()
            c[k] = new          # mutating the copy must not affect the original
        elif op == 7:
            c = active_h.copy()
            cm = dict(active_m)
            active_h[k] = new   # mutating the original must not affect the copy
            active_m[k] = new
            # check the copy right away against its own mirror
            t = RESOLVE_TYPES[rts[i]]
            got = _resolve_cached(c, t, HKEYS[0], False)[0]
            exp = _ref_resolve(cm, t, HKEYS[0])
            if got is not exp:
                return fail(lambda: 'copy resolved %r to %r after the original changed; its own mapping designates %r' % (
                    t, getattr(got, 'tag', type(got).__name__), getattr(exp, 'tag', None)))
        # after every op: resolve and compare with the mirror (this is what a request does)
        t = RESOLVE_TYPES[rts[i]]
        exp = _ref_resolve(active_m, t, HKEYS[0])
        try:
            got = _resolve_cached(active_h, t, HKEYS[0], raise_not_found)[0]
        except ferrors.HTTPUnsupportedMediaType:
            if exp is None and raise_not_found:
                continue
            return fail(lambda: 'resolve(%r) raised 415 but the mapping %r designates %r' % (t, list(active_m), getattr(exp, 'tag', None)))
        if exp is None and raise_not_found:
            return fail(lambda: 'resolve(%r) returned %r, expected 415' % (t, getattr(got, 'tag', None)))
        if got is not exp:
            return fail(lambda: 'after %s: resolve(%r) = %r, current mapping %r designates %r' % (
                [H_OPS[o] for o in ops[:i + 1]], t, getattr(got, 'tag', None), {kk: vv.tag for kk, vv in active_m.items()},
                getattr(exp, 'tag', None)))
    return 1


# ---------------------------------------------------------------- partitions
def _part(name, args, pre, call, timeout, bounds):
    src = '''
def h(%s) -> int:
    """
%s    post: _ != 0
    """
    return %s
''' % (args, ''.join('    pre: %s\n' % p for p in pre), call)
    return {'name': name, 'fn': 'h', 'src': src, 'timeout': timeout, 'bounds': bounds}


def partitions(tier, seed):
    P = []
    q = tier == 'quick'
    for rk in range(4):
        for tk in range(4):
            P.append(_part('pair_rk%d_tk%d' % (rk, tk),
                           'rm: str, rs: str, tm: str, ts: str, rv: str, rw: str, tv: str, tw: str, q: int',
                           ['len(rm) <= 1 and len(rs) <= 1 and len(tm) <= 1 and len(ts) <= 1',
                            'len(rv) <= 1 and len(rw) <= 1 and len(tv) <= 1 and len(tw) <= 1', '0 <= q <= 1000'],
                           'pair_case(rm, rs, tm, ts, %d, %d, rv, rw, tv, tw, q)' % (rk, tk), 120 if q else 400,
                           'match_score: range params %r vs type params %r (names from the menu), type/subtype names and parameter '
                           'values any strings of <= 1 character (incl. "*"), q any int 0..1000' % (KEYSETS[rk], KEYSETS[tk])))
    for n in (1, 2, 3):
        args = ', '.join('a%d: int, b%d: int, c%d: int, d%d: int, q%d: int' % (i, i, i, i, i) for i in range(n))
        pre = ['-1 <= a%d <= 1 and -1 <= b%d <= 1 and -1 <= c%d <= 1 and -1 <= d%d <= 2 and 0 <= q%d <= 1000' % (i, i, i, i, i)
               for i in range(n)]
        P.append(_part('aggregate_n%d' % n, args, pre,
                       'aggregate_case(%d, [%s])' % (n, ', '.join('(a%d, b%d, c%d, d%d, q%d)' % (i, i, i, i, i) for i in range(n))),
                       150 if q else 400,
                       'quality() over %d ranges with fully symbolic score tuples: returns the q of the lexicographically greatest' % n))
        P.append(_part('select_n%d' % n, ', '.join('q%d: int' % i for i in range(n)),
                       ['0 <= q%d <= 4' % i for i in range(n)],   # compared with the float 0.0 inside best_match: realized
                       'select_case(%d, [%s], False)' % (n, ', '.join('q%d' % i for i in range(n))), 100,
                       'best_match() over %d candidates whose qualities are drawn from (0, 0.001, 0.5, 0.5, 1) by symbolic indexes (ties included)' % n))
    step = 1
    na = len(ACCEPTS)
    groups = [(0, na // 2), (na // 2, na)]
    for gi, (lo, hi) in enumerate(groups):
        P.append(_part('quality_menu_%d' % gi, 'ti: int, ai: int', ['0 <= ti < %d' % len(TYPES), '%d <= ai < %d' % (lo, hi)],
                       'quality_menu_case(ti, ai)', 200 if q else 400,
                       'quality() (real parsing, lru layers bypassed) for %d media types x Accept headers %d..%d of the menu vs the '
                       'reference matcher' % (len(TYPES), lo, hi - 1)))
        P.append(_part('best_menu_%d' % gi, 'ci: int, ai: int', ['0 <= ci < %d' % len(CAND_LISTS), '%d <= ai < %d' % (lo, hi)],
                       'best_menu_case(ci, ai)', 250 if q else 500,
                       'best_match()/client_accepts/client_prefers for %d candidate lists x Accept headers %d..%d vs the reference '
                       'matcher' % (len(CAND_LISTS), lo, hi - 1)))
    for which, nm in enumerate(('parse_header', 'mediatype_parse', 'mediarange_parse')):
        for L in ((2, 3) if q else (2, 3, 4)):
            P.append(_part('%s_len%d' % (nm, L), 's: str', ['len(s) == %d' % L], 'parser_case(s, %d)' % which,
                           200 if q else 900,
                           '%s on every string of %d characters over the alphabet %r: documented errors only%s' % (
                               nm, L, ALPHA, '; equals the char-level reference when unquoted' if which == 0 else '')))
    # handlers: op kinds are the shape, keys / resolve types / raise flag symbolic
    hist2 = [(8, 0), (8, 2), (0, 0), (8, 1), (8, 3), (0, 1), (8, 4), (8, 5), (8, 7), (8, 6), (2, 2), (5, 0), (1, 0), (3, 5), (4, 7), (1, 7), (0, 7), (8, 9), (9, 0), (8, 10), (10, 3), (8, 11), (4, 11)]
    hist3 = [(8, 0, 8), (0, 8, 2), (8, 7, 0), (8, 1, 0), (8, 6, 8), (8, 4, 0), (0, 0, 1), (8, 2, 3)]
    hists = hist2 + hist3 if q else hist2 + hist3 + [(a, b, c) for a in (8, 0) for b in range(12) for c in range(12) if b != 8 or c != 8]
    seen = set()
    for ops in hists:
        if ops in seen:
            continue
        seen.add(ops)
        n = len(ops)
        args = ', '.join('k%d: int' % i for i in range(n)) + ', t: int, rnf: bool'
        pre = ['0 <= k%d < %d' % (i, len(HKEYS)) for i in range(n)] + ['0 <= t < %d' % len(RESOLVE_TYPES)]
        P.append(_part('handlers_%s' % '-'.join(H_OPS[o] for o in ops), args, pre,
                       'handlers_case(%r, [%s], [%s], rnf)' % (ops, ', '.join('k%d' % i for i in range(n)),
                                                                  ', '.join('t' for i in range(n))),
                       (150 if n < 3 else 300) if q else 600,
                       'Handlers history %s (each op on a symbolic key from %r; the same symbolic content type, one of %d, is resolved after every op) vs a '
                       'plain-dict mirror + reference matcher' % ([H_OPS[o] for o in ops], HKEYS, len(RESOLVE_TYPES))))
    return P
