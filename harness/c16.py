"""C16 -- static routes never leave their directory and serve exactly the requested bytes.

Real code: falcon.routing.static.StaticRoute.__call__ (containment), _set_range,
_BoundedFile, and the chain Range header -> Request.range -> _set_range ->
Response.set_stream/content_range through the real Request/Response classes.
The I/O boundary _open_file is replaced by a recorder / an in-memory file.
"""
import engine.loader as _l
_l.install()

import datetime  # noqa: E402
import os  # noqa: E402

import falcon  # noqa: E402
import falcon.routing.static as S  # noqa: E402
from falcon.response import Response, ResponseOptions  # noqa: E402

import engine.rt as _rt  # noqa: E402
from engine.envmodels import make_environ  # noqa: E402
from engine.rt import fail  # noqa: E402

PROPERTY = 'C16'
UNITS = ['falcon.routing.static.StaticRoute.__call__', 'falcon.routing.static._set_range', 'falcon.routing.static._BoundedFile.read',
         'falcon.request.Request.range/range_unit/if_modified_since', 'falcon.response.Response.set_stream/content_range']
STUBS = [
    'falcon.routing.static._open_file (io.open + fstat) replaced by a recorder (containment) or an in-memory file + stat (ranges)',
    'os.path.normpath (C function _path_normpath in Python 3.12) replaced under CrossHair by the pure-Python posixpath algorithm; '
    'equality with the C function is checked concretely on a grid of 5-character strings in partition "normpath_model"',
    'containment runs use a minimal request object (method, path) -- StaticRoute reads nothing else before opening',
    'falcon.HTTPRangeNotSatisfiable replaced by a light stand-in carrying the size while _set_range runs on symbolic integers '
    '(its constructor formats the size into a header, which realizes it)',
    'the served directory is "/d" so that short symbolic suffixes can spell sibling names such as "/dx/s"',
]
OUTSIDE = ['symlinks (excluded by the property)', 'Windows separators', 'path suffixes longer than 7 characters except the long-name shapes',
           'real file-system I/O and the ASGI _AsyncFileReader executor hop']
BUDGET = {'quick': 300, 'thorough': 900}

DIR = '/d'


def py_normpath(path):
    """posixpath.normpath, pure Python (CPython 3.11 algorithm)."""
    sep = '/'
    empty = ''
    dot = '.'
    dotdot = '..'
    if path == empty:
        return dot
    initial_slashes = path.startswith(sep)
    if initial_slashes and path.startswith(sep * 2) and not path.startswith(sep * 3):
        initial_slashes = 2
    comps = path.split(sep)
    new_comps = []
    for comp in comps:
        if comp in (empty, dot):
            continue
        if comp != dotdot or (not initial_slashes and not new_comps) or (new_comps and new_comps[-1] == dotdot):
            new_comps.append(comp)
        elif new_comps:
            new_comps.pop()
    comps = new_comps
    path = sep.join(comps)
    if initial_slashes:
        path = sep * initial_slashes + path
    return path or dot


class _OsPath:
    """os.path with normpath swapped for the pure-Python model."""

    def __getattr__(self, name):
        return getattr(os.path, name)

    normpath = staticmethod(py_normpath)


class _Os:
    path = _OsPath()

    def __getattr__(self, name):
        return getattr(os, name)


def normpath_model_ok():
    import itertools
    alpha = ['/', '.', 'a', '\x00']
    for n in range(0, 7):
        for t in itertools.product(alpha, repeat=n):
            s = ''.join(t)
            if '\x00' in s:
                continue
            if py_normpath(s) != os.path.normpath(s):
                return fail(lambda: 'normpath model differs from os.path.normpath on %r' % (s,))
    return 1


class _Req:
    def __init__(self, path, method='GET'):
        self.path = path
        self.method = method


def _inside(path, directory):
    """Independent lexical resolution: segment stack."""
    if not path.startswith('/'):
        return False
    stack = []
    for seg in path.split('/'):
        if seg == '' or seg == '.':
            continue
        if seg == '..':
            if not stack:
                return False
            stack.pop()
        else:
            stack.append(seg)
    want = [s for s in directory.split('/') if s]
    return stack[:len(want)] == want


def containment_case(suffix, fallback, prefix_tail=''):
    """Every path handed to _open_file lies in DIR (or is the fallback file); the request is otherwise a 404."""
    opened = []

    def recorder(file_path):
        opened.append(file_path)
        raise falcon.HTTPNotFound()
    saved_open, saved_os = S._open_file, S.os
    S._open_file = recorder
    if not _rt.CONCRETE:
        S.os = _Os()
    try:
        route = S.StaticRoute.__new__(S.StaticRoute)
        route._directory = DIR
        route._fallback_filename = (DIR + '/fb.html') if fallback else None
        route._prefix = '/static/'
        route._downloadable = False
        req = _Req('/static/' + prefix_tail + suffix)
        resp = None
        try:
            route(req, resp)
        except falcon.HTTPNotFound:
            pass
    finally:
        S._open_file = saved_open
        S.os = saved_os
    for p in opened:
        if fallback and p == DIR + '/fb.html':
            continue
        if not _inside(p, DIR):
            return fail(lambda: 'request path %r made the route open %r, outside %r' % ('/static/' + prefix_tail + suffix, p, DIR))
    return 1


# ---------------------------------------------------------------- ranges
class _Unsat(Exception):
    def __init__(self, size):
        self.size = size


class _FakeFile:
    def __init__(self, data, size=None):
        self.data = data
        self.size = len(data) if size is None else size
        self.pos = 0
        self.closed = 0

    def seek(self, off, whence=0):
        if whence == 0:
            self.pos = off
        elif whence == 2:
            self.pos = self.size + off
        else:
            self.pos += off
        return self.pos

    def read(self, size=-1):
        rest = len(self.data) - self.pos
        if size is None or size < 0 or size > rest:
            size = rest
        r = self.data[self.pos:self.pos + size]
        self.pos += size
        return r

    def close(self):
        self.closed += 1

    def fileno(self):
        return 3


class _Stat:
    def __init__(self, size, mtime=1000000000):
        self.st_size = size
        self.st_mtime = mtime


def _ref_range(size, kind, a, b):
    """RFC 9110 single range -> None (ignored), 'unsat', or (first, last)."""
    if size == 0:
        return None
    if kind == 0:           # first-last
        if a >= size:
            return 'unsat'
        return (a, b if b < size - 1 else size - 1)
    if kind == 1:           # first-
        if a >= size:
            return 'unsat'
        return (a, size - 1)
    n = a                   # -suffix (n >= 1)
    if n > size:
        n = size
    return (size - n, size - 1)


def arith_case(size, kind, a, b):
    """_set_range header arithmetic for ALL integers (no data)."""
    if size < 0 or a < 0 or b < 0:
        return 2
    if kind == 0:
        if b < a:
            return 2        # req.range never produces it
        rr = (a, b)
    elif kind == 1:
        rr = (a, -1)
    else:
        if a < 1:
            return 2
        rr = (-a, -1)
    fh = _FakeFile(b'', size)
    saved = S.falcon
    S.falcon = _FalconShim()
    try:
        try:
            stream, length, cr = S._set_range(fh, _Stat(size), rr)
        except _Unsat as e:
            got = ('unsat', e.size)
            stream = None
        else:
            got = (length, cr)
    finally:
        S.falcon = saved
    exp = _ref_range(size, kind, a, b)
    if exp is None:
        want = (0, None)
    elif exp == 'unsat':
        want = ('unsat', size)
    else:
        want = (exp[1] - exp[0] + 1, (exp[0], exp[1], size))
    if got != want:
        return fail(lambda: '_set_range(size=%r, range=%r) -> %r, RFC 9110 gives %r' % (size, rr, got, want))
    if exp not in (None, 'unsat'):
        if fh.pos != exp[0]:
            return fail(lambda: 'file positioned at %r, range starts at %r' % (fh.pos, exp[0]))
        if stream.remaining != want[0]:
            return fail('bounded file budget differs from the range length')
    return 1


class _FalconShim:
    """falcon namespace with HTTPRangeNotSatisfiable replaced by the light stand-in."""
    HTTPRangeNotSatisfiable = _Unsat

    def __getattr__(self, name):
        return getattr(falcon, name)


DATA = b'0123456789'
MTIME = 1000000000  # 2001-09-09T01:46:40Z
IMS = [None, 'Sun, 09 Sep 2001 01:46:39 GMT', 'Sun, 09 Sep 2001 01:46:40 GMT', 'Sun, 09 Sep 2001 01:46:41 GMT', 'garbage',
       'Fri, 01 Jan 2100 00:00:00 GMT']     # the last: ahead of any server clock -- still "not modified since"



def chain_case(size, unit_ok, first, last, ims, rs1, rs2, asgi=False):
    """Range header text -> req.range -> _set_range -> resp.stream: status, Content-Range, length and the exact bytes."""
    for ch in first + last:
        if not ('0' <= ch <= '9'):
            return 2
    data = DATA[:size]
    opened = []

    def fake_open(file_path):
        fh = _FakeFile(data)
        opened.append(fh)
        return fh, _Stat(size, MTIME)
    hs = []
    if first or last:
        hs.append(('Range', ('bytes=' if unit_ok else 'items=') + first + '-' + last))
    if IMS[ims] is not None:
        hs.append(('If-Modified-Since', IMS[ims]))
    req = falcon.Request(make_environ(path='/static/f.txt', headers=hs))
    resp = Response(options=ResponseOptions())
    saved_open = S._open_file
    S._open_file = fake_open
    try:
        route = S.StaticRoute.__new__(S.StaticRoute)
        route._directory = DIR
        route._fallback_filename = None
        route._prefix = '/static/'
        route._downloadable = False
        try:
            route(req, resp)
            err = None
        except falcon.HTTPError as e:
            err = e
    finally:
        S._open_file = saved_open
    # expectations
    fv = lv = None
    if first:
        fv = 0
        for ch in first:
            fv = fv * 10 + ord(ch) - 48
    if last:
        lv = 0
        for ch in last:
            lv = lv * 10 + ord(ch) - 48
    if ims == 4:
        # an unparsable date is invalid input: the documented answer is a 400
        if err is None or err.status_code != 400:
            return fail(lambda: 'If-Modified-Since garbage: expected 400, got %r' % (err or resp.status,))
        return 1
    not_modified = ims in (2, 3, 5)   # If-Modified-Since >= mtime
    if not_modified:
        if err is not None or resp.status_code != 304 or resp.stream is not None:
            return fail(lambda: 'If-Modified-Since %r: expected 304 without body, got %r / %r' % (IMS[ims], err, resp.status))
        return 1
    rng = None
    if (first or last) and unit_ok:
        if fv is not None and lv is not None:
            if lv < fv:
                rng = 'invalid'
            else:
                rng = _ref_range(size, 0, fv, lv)
        elif fv is not None:
            rng = _ref_range(size, 1, fv, 0)
        else:
            if lv == 0:
                rng = 'invalid'
            else:
                rng = _ref_range(size, 2, lv, 0)
    if rng == 'invalid':
        if err is None or err.status_code != 400:
            return fail(lambda: 'malformed Range %r: expected 400, got %r' % (hs, err or resp.status))
        return 1
    if rng == 'unsat':
        if err is None or err.status_code != 416:
            return fail(lambda: 'unsatisfiable Range %r on a %d-byte file: expected 416, got %r' % (hs, size, err or resp.status))
        cr = err.headers.get('Content-Range') if err.headers else None
        if cr != 'bytes */%d' % size:
            return fail(lambda: '416 Content-Range %r, expected bytes */%d' % (cr, size))
        return 1
    if err is not None:
        return fail(lambda: 'Range %r on a %d-byte file raised %r' % (hs, size, err))
    # read the stream the way a server does (two reads with symbolic sizes, then the rest)
    body = b''
    for n in (rs1, rs2, -1):
        c = resp.stream.read(n)
        body = body + c
    if rng is None:
        if resp.status_code != 200 or body != data or resp.get_header('Content-Range') is not None:
            return fail(lambda: 'no/ignored Range: status %r body %r' % (resp.status, body))
        if resp.get_header('Content-Length') != str(size):
            return fail(lambda: 'Content-Length %r for a %d-byte file' % (resp.content_length, size))
        return 1
    a, b = rng
    if resp.status_code != 206:
        return fail(lambda: 'satisfiable Range %r: status %r' % (hs, resp.status))
    if resp.get_header('Content-Range') != 'bytes %d-%d/%d' % (a, b, size):
        return fail(lambda: 'Content-Range %r, expected bytes %d-%d/%d' % (resp.get_header('Content-Range'), a, b, size))
    if body != data[a:b + 1]:
        return fail(lambda: 'Range %r served %r, the slice is %r' % (hs, body, data[a:b + 1]))
    if resp.get_header('Content-Length') != str(b - a + 1):
        return fail(lambda: 'Content-Length %r, range length %d' % (resp.content_length, b - a + 1))
    return 1


# ---------------------------------------------------------------- partitions
def _part(name, args, pre, call, timeout, bounds, concrete=False):
    if concrete:
        return {'name': name, 'fn': 'h', 'concrete': True, 'timeout': timeout,
                'src': 'def h() -> int:\n    return %s\n' % call, 'bounds': bounds}
    src = '''
def h(%s) -> int:
    """
%s    post: _ != 0
    """
    return %s
''' % (args, ''.join('    pre: %s\n' % p for p in pre), call)
    return {'name': name, 'fn': 'h', 'src': src, 'timeout': timeout, 'bounds': bounds}


def partitions(tier, seed):
    P = []
    q = tier == 'quick'
    P.append(_part('normpath_model', '', [], 'normpath_model_ok()', 120,
                   'concrete exhaustive: pure-Python normpath model == os.path.normpath on all strings of <= 6 characters over / . a', True))
    # containment: partition on the first character class to spread the work
    firsts = [("s[0] == '/'", 'slash'), ("s[0] == '.'", 'dot'), ("s[0] != '/' and s[0] != '.'", 'other')]
    L = 5 if q else 7
    for fb in (0, 1):
        P.append(_part('contain_empty_fb%d' % fb, 's: str', ['len(s) == 0'], 'containment_case(s, %d)' % fb, 60,
                       'containment: empty suffix, fallback=%d' % fb))
        for pre, nm in firsts:
            for n in range(1, L + 1):
                if q and n == L and nm == 'other':
                    continue
                P.append(_part('contain_%s_len%d_fb%d' % (nm, n, fb), 's: str', ['len(s) == %d' % n, pre],
                               'containment_case(s, %d)' % fb, 150 if q else 900,
                               'containment: every request path /static/<s> with len(s) == %d, first character class "%s", all other '
                               'characters free (dots, slashes, backslashes, controls, reserved, non-ASCII); fallback file %s' % (
                                   n, nm, 'configured' if fb else 'absent')))
    # over-long names: 509-513 characters with a symbolic 3-character tail
    for base in (509, 510, 511):
        P.append(_part('contain_long%d' % base, 's: str', ['len(s) == 3'], "containment_case(s, 0, 'a' * %d)" % base, 200,
                       'containment: %d literal characters followed by 3 free ones (crosses the 512-character limit)' % base))
    # range arithmetic for all integers
    for kind in range(3):
        P.append(_part('range_arith_kind%d' % kind, 'size: int, a: int, b: int', [], 'arith_case(size, %d, a, b)' % kind, 120,
                       '_set_range for EVERY size >= 0 and every %s range (unbounded integers)' % ['first-last', 'first-', '-suffix'][kind]))
    # chain with real data
    sizes = (0, 1, 5) if q else (0, 1, 2, 5, 10)
    for size in sizes:
        for shape, (fl, ll) in (('FL', (1, 1)), ('F', (1, 0)), ('S', (0, 1))):
            P.append(_part('chain_size%d_%s' % (size, shape), 'first: str, last: str, unit_ok: bool, rs1: int',
                           ['len(first) == %d and len(last) == %d' % (fl, ll), 'rs1 >= -1'],
                           'chain_case(%d, unit_ok, first, last, 0, rs1, -1)' % size, 200 if q else 600,
                           'Range header %s (free digits; unit bytes or another one) on a %d-byte file through the real Request/Response '
                           'and StaticRoute: status, Content-Range, Content-Length, exact bytes; first server read size any int >= -1' % (
                               {'FL': 'bytes=F-L', 'F': 'bytes=F-', 'S': 'bytes=-S'}[shape], size)))
        P.append(_part('chain_size%d_ims' % size, 'last: str, ims: int, rs1: int, rs2: int',
                       ['len(last) <= 1', '0 <= ims < %d' % len(IMS), 'rs1 >= -1 and rs2 >= -1'],
                       "chain_case(%d, True, '', last, ims, rs1, rs2)" % size, 200 if q else 600,
                       'If-Modified-Since from a menu (absent, mtime-1s, mtime, mtime+1s, garbage, year 2100) with no Range or bytes=-S on a %d-byte file: '
                       '304 without body / 200 / 400; two server read sizes any int >= -1' % size))
    if not q:
        P.append(_part('chain_size10_FL2', 'first: str, last: str, unit_ok: bool, ims: int, rs1: int, rs2: int',
                       ['len(first) == 2 and len(last) == 2', '0 <= ims < %d' % len(IMS), 'rs1 >= -1 and rs2 >= -1'],
                       'chain_case(10, unit_ok, first, last, ims, rs1, rs2)', 900, 'two-digit offsets on a 10-byte file'))
    return P
