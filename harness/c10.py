"""C10 -- URI encode/decode are total, lossless inverses with RFC 3986 output.

Real code: falcon.util.uri.decode / _join_tokens_bytearray / _join_tokens_list /
encode / encode_value / encode_check_escaped / encode_value_check_escaped /
parse_host / unquote_string (pure-Python module; the Cython twin is blocked).
Oracle: byte-level reference decoder written from the property text; RFC 3986
alphabets; RFC 3986 authority split.
"""
import engine.loader as _l
_l.install()

import falcon.util.uri as U  # noqa: E402

from engine.rt import fail  # noqa: E402
import engine.rt as _rt  # noqa: E402

PROPERTY = 'C10'
UNITS = ['falcon.util.uri.decode', 'falcon.util.uri._join_tokens_bytearray', 'falcon.util.uri._join_tokens_list',
         'falcon.util.uri.encode', 'falcon.util.uri.encode_value', 'falcon.util.uri.encode_check_escaped',
         'falcon.util.uri.encode_value_check_escaped', 'falcon.util.uri.parse_host', 'falcon.util.uri.unquote_string']
STUBS = [
    'falcon.util.uri._HEX_TO_BYTE (concrete dict indexed by symbolic bytes -> realization) replaced by an arithmetic '
    'table model in all decode partitions except "table_*", which run the REAL dict and compare it with the arithmetic '
    'model for every 2-byte key through the solver',
    'the per-byte lookup table built by _create_char_encoder replaced by an arithmetic model when the four encoders are '
    're-created for symbolic runs; the real tables are compared with the model for all 256 byte values in the concrete '
    'partition "encoder_tables" (exhaustive, not symbolic)',
    'strings containing lone surrogates are excluded (str.encode() is partial there; outside the property alphabet)',
]
OUTSIDE = ['decode inputs longer than 4 characters except the structured >= 8-token shapes',
           'the Cython decode (falcon/cyutil/uri.pyx)', 'lone surrogates', 'ports of more than 3 digits in parse_host']
BUDGET = {'quick': 330, 'thorough': 900}

UNRESERVED = 'ABCDEFGHIJKLMNOPQRSTUVWXYZabcdefghijklmnopqrstuvwxyz0123456789-._~'
RESERVED = ":/?#[]@!$&'()*+,;="


def _hv(c):
    if 48 <= c <= 57:
        return c - 48
    if 65 <= c <= 70:
        return c - 55
    if 97 <= c <= 102:
        return c - 87
    return -1


class HexTable:
    def __getitem__(self, key):
        if len(key) == 2:
            a = _hv(key[0])
            b = _hv(key[1])
            if a >= 0 and b >= 0:
                return bytes([a * 16 + b])
        raise KeyError(key)


REAL_TABLE = U._HEX_TO_BYTE
STUB_TABLE = HexTable()


def ref_decode(s, plus):
    b = s.encode('utf-8')
    out = []
    i = 0
    n = len(b)
    while i < n:
        c = b[i]
        if c == 0x25 and i + 2 < n and _hv(b[i + 1]) >= 0 and _hv(b[i + 2]) >= 0:
            out.append(_hv(b[i + 1]) * 16 + _hv(b[i + 2]))
            i += 3
        elif c == 0x2b and plus:
            out.append(0x20)
            i += 1
        else:
            out.append(c)
            i += 1
    return bytes(out).decode('utf-8', 'replace')


def _nosurrogate(s):
    for ch in s:
        if 0xD800 <= ord(ch) <= 0xDFFF:
            return False
    return True


def decode_eq(s, plus, table='stub', fn='decode'):
    if not _nosurrogate(s):
        return 2
    U._HEX_TO_BYTE = STUB_TABLE if (table == 'stub' and not _rt.CONCRETE) else REAL_TABLE
    try:
        if fn == 'decode':
            got = U.decode(s, plus)
        else:
            d = s.replace('+', ' ') if plus else s
            tokens = d.encode().split(b'%')
            got = (U._join_tokens_bytearray if fn == 'bytearray' else U._join_tokens_list)(tokens)
    finally:
        U._HEX_TO_BYTE = REAL_TABLE
    exp = ref_decode(s, plus)
    if got != exp:
        return fail(lambda: '%s(%r, unquote_plus=%r) = %r, reference decoder gives %r' % (fn, s, plus, got, exp))
    return 1


# ---------------------------------------------------------------- encoders
def is_unreserved(cp):
    # ALPHA / DIGIT / "-" / "." / "_" / "~"   (RFC 3986 section 2.3)
    return (65 <= cp <= 90) or (97 <= cp <= 122) or (48 <= cp <= 57) or cp == 45 or cp == 46 or cp == 95 or cp == 126


def is_reserved(cp):
    # gen-delims ":/?#[]@" and sub-delims "!$&'()*+,;="   (RFC 3986 section 2.2)
    return (cp == 33 or cp == 35 or cp == 36 or (38 <= cp <= 44) or cp == 47 or cp == 58 or cp == 59 or cp == 61
            or cp == 63 or cp == 64 or cp == 91 or cp == 93)


def _allowed_cp(cp, value_only):
    return is_unreserved(cp) or (not value_only and is_reserved(cp))


def _enc_char_model(allowed):
    value_only = len(allowed) == len(UNRESERVED)

    def enc(code_point):
        if _allowed_cp(code_point, value_only):
            return chr(code_point)
        hi = code_point // 16
        lo = code_point % 16
        return '%' + chr(48 + hi if hi < 10 else 55 + hi) + chr(48 + lo if lo < 10 else 55 + lo)
    return enc


def encoder_tables_ok():
    """Concrete, exhaustive: the real per-byte tables == the arithmetic model (both alphabets)."""
    for allowed in (UNRESERVED, UNRESERVED + RESERVED):
        real = U._create_char_encoder(allowed)
        model = _enc_char_model(allowed)
        for b in range(256):
            if real(b) != model(b):
                return fail(lambda: '_create_char_encoder(%r)(%d) = %r, RFC 3986 model %r' % (allowed, b, real(b), model(b)))
    if U._UNRESERVED != UNRESERVED or U._ALL_ALLOWED != UNRESERVED + RESERVED:
        return fail('falcon.util.uri alphabets differ from RFC 3986 unreserved / reserved sets')
    return 1


def _encoders():
    """The four encoders; under CrossHair re-created over the arithmetic per-byte model."""
    if _rt.CONCRETE:
        return U.encode, U.encode_value, U.encode_check_escaped, U.encode_value_check_escaped
    saved = U._create_char_encoder
    U._create_char_encoder = _enc_char_model
    try:
        return (U._create_str_encoder(False), U._create_str_encoder(True),
                U._create_str_encoder(False, True), U._create_str_encoder(True, True))
    finally:
        U._create_char_encoder = saved


def _well_formed(out, allowed):
    """only allowed characters and upper-case %XX escapes."""
    value_only = len(allowed) == len(UNRESERVED)
    i = 0
    n = len(out)
    while i < n:
        ch = out[i]
        if ch == '%':
            if i + 2 > n - 1:
                return False
            a = ord(out[i + 1])
            b = ord(out[i + 2])
            if not ((48 <= a <= 57 or 65 <= a <= 70) and (48 <= b <= 57 or 65 <= b <= 70)):
                return False
            i += 3
        else:
            if not _allowed_cp(ord(ch), value_only):
                return False
            i += 1
    return True


def _fully_escaped(s, allowed):
    """allowed characters and valid %hh (any case) escapes only."""
    value_only = len(allowed) == len(UNRESERVED)
    i = 0
    n = len(s)
    while i < n:
        ch = s[i]
        if ch == '%':
            if i + 2 > n - 1:
                return False
            if _hv(ord(s[i + 1])) < 0 or _hv(ord(s[i + 2])) < 0:
                return False
            i += 3
        else:
            if not _allowed_cp(ord(ch), value_only):
                return False
            i += 1
    return True


def encode_props(s, which):
    """which: 0 encode, 1 encode_value, 2 encode_check_escaped, 3 encode_value_check_escaped"""
    if not _nosurrogate(s):
        return 2
    enc = _encoders()[which]
    allowed = UNRESERVED if which in (1, 3) else UNRESERVED + RESERVED
    out = enc(s)
    U._HEX_TO_BYTE = REAL_TABLE if _rt.CONCRETE else STUB_TABLE
    try:
        if which in (0, 1):
            if not _well_formed(out, allowed):
                return fail(lambda: 'encoder#%d(%r) = %r contains a character outside the RFC 3986 set / a bad escape' % (which, s, out))
            if which == 1:
                back = U.decode(out, False)
                if back != s:
                    return fail(lambda: 'decode(encode_value(%r)) = %r' % (s, back))
            else:
                # whole-URI encoding keeps reserved characters and '%'-free input decodes back
                back = U.decode(out, False)
                if back != s:
                    return fail(lambda: 'decode(encode(%r)) = %r' % (s, back))
        else:
            if _fully_escaped(s, allowed):
                if out != s:
                    return fail(lambda: 'check-escaped encoder#%d changed the already escaped %r into %r' % (which, s, out))
            else:
                if not _well_formed(out, allowed):
                    return fail(lambda: 'check-escaped encoder#%d(%r) = %r is not well formed' % (which, s, out))
                back = U.decode(out, False)
                if back != s:
                    return fail(lambda: 'decode(check-escaped encoder#%d(%r)) = %r' % (which, s, back))
            again = enc(out)
            if again != out:
                return fail(lambda: 'check-escaped encoder#%d not idempotent: %r -> %r -> %r' % (which, s, out, again))
    finally:
        U._HEX_TO_BYTE = REAL_TABLE
    return 1


# ---------------------------------------------------------------- parse_host / unquote_string
def host_case(form, name, pd, default):
    """Valid RFC 3986 authority forms: reg-name / IPv4 (no colon inside), bracketed IP-literal.
    pd: the port digits as text (so that falcon's int() runs on symbolic text)."""
    for ch in name:
        if ch in ':[]' or ord(ch) < 0x21:
            return 2
    if not name:
        return 2
    port = 0
    for ch in pd:
        if not ('0' <= ch <= '9'):
            return 2
        port = port * 10 + (ord(ch) - 48)
    if form in (1, 3) and not pd:
        return 2
    if form == 0:
        text, eh, ep = name, name, default
    elif form == 1:
        text, eh, ep = name + ':' + pd, name, port
    elif form == 2:
        inner = name + ':' + name  # an IP-literal always contains a colon
        text, eh, ep = '[' + inner + ']', inner, default
    else:
        inner = name + '::' + name
        text, eh, ep = '[' + inner + ']:' + pd, inner, port
    got = U.parse_host(text, default)
    if got != (eh, ep):
        return fail(lambda: 'parse_host(%r, %r) = %r, expected %r' % (text, default, got, (eh, ep)))
    return 1


def ref_unquote(q):
    if len(q) < 2 or q[0] != '"' or q[-1] != '"':
        return q
    inner = q[1:-1]
    out = []
    i = 0
    n = len(inner)
    while i < n:
        ch = inner[i]
        if ch == '\\':
            if i + 1 < n:
                out.append(inner[i + 1])
                i += 2
            else:
                i += 1  # a dangling backslash is dropped
        else:
            out.append(ch)
            i += 1
    return ''.join(out)


def unquote_eq(q):
    got = U.unquote_string(q)
    exp = ref_unquote(q)
    if got != exp:
        return fail(lambda: 'unquote_string(%r) = %r, quoted-pair reference gives %r' % (q, got, exp))
    return 1


# ---------------------------------------------------------------- partitions
def _dec_part(pattern, timeout=120, table='stub', fn='decode', prefix=''):
    """pattern: string over 'P' (this position is '%') and 'x' (any other character, incl. non-ASCII)."""
    pre = ''.join("    pre: s[%d] %s '%%'\n" % (i, '==' if k == 'P' else '!=') for i, k in enumerate(pattern))
    src = '''
def h(s: str, plus: bool) -> int:
    """
    pre: len(s) == %d
%s    post: _ != 0
    """
    return decode_eq(%r + s, plus, %r, %r)
''' % (len(pattern), pre, prefix, table, fn)
    return {'name': '%s_%s%s_%s' % (fn, 'long_' if prefix else '', pattern, table),
            'fn': 'h', 'src': src, 'timeout': timeout,
            'bounds': "%s on %severy string of %d characters with '%%' exactly at the positions marked P in %s and ANY other "
                      'code point (full Unicode minus lone surrogates) elsewhere; unquote_plus symbolic; %s' % (
                          fn, ('the concrete prefix %r followed by ' % prefix) if prefix else '', len(pattern), pattern,
                          'arithmetic hex-table model' if table == 'stub' else 'REAL _HEX_TO_BYTE dict')}


def _free_part(name, L, body, timeout=120, extra_pre='', args='s: str', bounds=''):
    src = '''
def h(%s) -> int:
    """
    pre: %s
%s    post: _ != 0
    """
    return %s
''' % (args, L, extra_pre, body)
    return {'name': name, 'fn': 'h', 'src': src, 'timeout': timeout, 'bounds': bounds}


_ECLS = {
    'A': "is_unreserved(ord({c}))",
    'R': "is_reserved(ord({c}))",
    'P': "{c} == '%'",
    'H': "(('0' <= {c} <= '9') or ('A' <= {c} <= 'F') or ('a' <= {c} <= 'f'))",
    'O': "(ord({c}) < 128 and {c} != '%' and not is_unreserved(ord({c})) and not is_reserved(ord({c})))",
    'U': "ord({c}) >= 128",
}
_ECLS_DESC = {'A': 'unreserved', 'R': 'reserved', 'P': "'%'", 'H': 'hex digit', 'O': 'other ASCII', 'U': 'any non-ASCII code point'}


def _enc_part(nm, which, cls, timeout=150):
    pre = ''.join('    pre: %s\n' % _ECLS[k].format(c='s[%d]' % i) for i, k in enumerate(cls))
    src = '''
def h(s: str) -> int:
    """
    pre: len(s) == %d
%s    post: _ != 0
    """
    return encode_props(s, %d)
''' % (len(cls), pre, which)
    return {'name': '%s_%s' % (nm, cls), 'fn': 'h', 'src': src, 'timeout': timeout,
            'bounds': '%s on every string whose %d characters have classes [%s]' % (
                nm, len(cls), ', '.join(_ECLS_DESC[k] for k in cls))}


def _seqs(n, alphabet='Px'):
    if n == 0:
        return ['']
    return [a + r for a in alphabet for r in _seqs(n - 1, alphabet)]


def hex_table_ok():
    """Concrete, exhaustive: the real _HEX_TO_BYTE == the arithmetic model for every key of <= 2 bytes
    (and it has no other keys)."""
    import itertools
    n = 0
    for ln in (0, 1, 2):
        for t in itertools.product(range(256), repeat=ln):
            k = bytes(t)
            try:
                a = STUB_TABLE[k]
            except KeyError:
                a = None
            b = REAL_TABLE.get(k)
            if a != b:
                return fail(lambda: '_HEX_TO_BYTE[%r] = %r, hex value is %r' % (k, b, a))
            n += b is not None
    if n != len(REAL_TABLE):
        return fail('_HEX_TO_BYTE has keys longer than 2 bytes')
    return 1


def partitions(tier, seed):
    P = []
    q = tier == 'quick'
    # concrete exhaustive stub validation
    P.append({'name': 'encoder_tables', 'fn': 'h', 'concrete': True, 'timeout': 60,
              'src': 'def h() -> int:\n    return encoder_tables_ok()\n',
              'bounds': 'concrete exhaustive: real per-byte encoder tables == RFC 3986 model for all 256 bytes x 2 alphabets'})
    P.append({'name': 'hex_table', 'fn': 'h', 'concrete': True, 'timeout': 60,
              'src': 'def h() -> int:\n    return hex_table_ok()\n',
              'bounds': 'concrete exhaustive: real _HEX_TO_BYTE == arithmetic hex model for all 65793 keys of <= 2 bytes'})
    # decode without '%': short-circuit path, any characters
    P.append(_free_part('decode_nopercent_len3', 'len(s) <= 3', 'decode_eq(s, plus)', args='s: str, plus: bool',
                        extra_pre="    pre: '%' not in s\n",
                        bounds='decode on every string of <= 3 characters (any code points) without %; unquote_plus symbolic'))
    for n in range(1, (4 if q else 5) + 1):
        for pat in _seqs(n):
            if 'P' not in pat:
                continue
            if n >= 4 and q and pat.count('x') > 2:
                continue
            if n == 5 and pat.count('x') > 2:
                continue
            P.append(_dec_part(pat, timeout=150 if q else 900))
    # the real table through the solver: every 2-character continuation of a '%'
    if not q:
        P.append(_dec_part('Pxx', table='real', timeout=1500))
    # >= 8 tokens: crosses the len(tokens) < 8 switch; both join helpers called directly too
    pre8 = '%41' * 7
    for fn in ('decode', 'bytearray', 'list'):
        for pat in (['Pxx'] if q else ['Pxx', 'xPx', 'xxP', 'PPx', 'PxP', 'xPP', 'Pxxx']):
            P.append(_dec_part(pat, fn=fn, prefix=pre8, timeout=150 if q else 900))
    # encoders: length 1 free; length 2/3 partitioned by the class of each character
    names = ('encode', 'encode_value', 'encode_check_escaped', 'encode_value_check_escaped')
    for which, nm in enumerate(names):
        P.append(_free_part('%s_len1' % nm, 'len(s) == 1', 'encode_props(s, %d)' % which, timeout=200,
                            bounds='%s on every 1-character string (any code point except lone surrogates): RFC 3986 output '
                                   'alphabet, upper-case escapes, decode round trip, check-escaped identity/idempotence' % nm))
        seqs2 = _seqs(2, 'ARPOU')
        if q:
            # two-character strings with a non-ASCII member cost ~1 s/path (UTF-8 forms): thorough tier only
            seqs2 = [c for c in seqs2 if 'U' not in c and ((which >= 2 and 'P' in c) or c in ('AO', 'OA', 'RO'))]
        for cls in seqs2:
            P.append(_enc_part(nm, which, cls, timeout=150 if q else 600))
        if which >= 2:
            for cls in (['PAA', 'PAR', 'PRA', 'PAO', 'POA', 'PPA', 'PRR'] if q else [c for c in _seqs(3, 'APRO') if 'P' in c] + ['PHU', 'UPH', 'PUH']):
                P.append(_enc_part(nm, which, cls, timeout=150 if q else 600))
    # parse_host
    for form in range(4):
        nd = 2 if tier == 'quick' else 3
        P.append(_free_part('parse_host_form%d' % form, 'len(name) <= 3',
                            'host_case(%d, name, pd, default)' % form, args='name: str, pd: str, default: int',
                            extra_pre='    pre: len(pd) <= %d\n' % (nd if form in (1, 3) else 0), timeout=150,
                            bounds='parse_host on %s with name <= 3 free characters (no colon/brackets/controls), port of <= %d '
                                   'free digits, default_port any int' % (['name', 'name:port', '[v6]', '[v6]:port'][form], nd)))
    for L in ((3, 4) if tier == 'quick' else (3, 4, 5, 6)):
        P.append(_free_part('unquote_string_len%d' % L, 'len(q) == %d' % L, 'unquote_eq(q)', args='q: str', timeout=150,
                            bounds='unquote_string on every string of %d characters vs quoted-pair reference' % L))
    return P
