#!/usr/bin/env python3
"""Print the prompt for a mutation sub-agent: property text only + its own worktree."""
import json, sys
pid, wt = sys.argv[1], sys.argv[2]
for l in open('/verif/properties.jsonl'):
    d = json.loads(l)
    if d['id'] == pid:
        break
print(f"""You are working in a scratch git worktree of the falconry/falcon repository (a Python WSGI/ASGI web framework) at {wt}. Work ONLY inside {wt}. Never read or modify /repo, /verif, or any other directory outside {wt} (reading /venv and the Python standard library is fine). There is no network.

Run Python as:   cd {wt} && PYTHONPATH={wt} /venv/bin/python ...
Run the test suite as:   cd {wt} && PYTHONPATH={wt} /venv/bin/python -m pytest -q -p no:cacheprovider --timeout=900 --continue-on-collection-errors tests
(it takes about a minute; on the unchanged tree it gives 3440 passed and one pre-existing collection error in tests/test_uri_templates.py, which you must ignore). Check `python -c "import falcon.app; print(falcon.app.__file__)"` prints a path under {wt}.

TASK. Here is a semantic property that falcon is supposed to satisfy:

  Title: {d['title']}
  Statement: {d['statement']}
  Quantified over: {d['quantifier']['text']}
  Code involved: {', '.join(d['anchors']['files'])}

Produce TWO independent, realistic changes ("A" and "B") to falcon's source under {wt}/falcon/ (the kind of regression a well-meaning refactoring, optimisation or bug-fix attempt could introduce) such that each one:
  1. BREAKS the property above as stated (an observable wrong result through falcon's public API),
  2. still imports/compiles, and the existing test suite STILL PASSES completely with it (same 3440 passed; do not edit tests),
  3. needs something specific to manifest -- a particular interleaving, a fault at a particular point, a multi-step sequence of operations, an unusual input, a boundary value, or two cooperating sites that each look fine alone -- NOT something ordinary use would expose at once,
  4. is small (a few lines), touches only .py files under falcon/ (not .pyx), and is different in mechanism and location from the other one.

For each change X in (A, B) deliver, in {wt}/MUTANT_X/:
  - patch.diff : output of `git diff` for that change alone (relative to the worktree HEAD; must apply with `git apply` on a clean checkout),
  - demo.py    : a small self-contained program using only falcon's public API that exits 0 (prints PASS) on the unchanged tree and exits 1 (prints FAIL with what went wrong) with the change applied; run as `PYTHONPATH={wt} /venv/bin/python MUTANT_X/demo.py`,
  - notes.md   : 5-10 lines: what the change is, which part of the property it breaks, what it needs in order to manifest, and the commands you ran (test-suite result with the change applied, demo with and without).

Procedure: read the relevant code, design change A, apply it, run the full test suite (must pass), run the demo (must FAIL), save `git diff > MUTANT_A/patch.diff`, then `git checkout -- falcon` to restore, run the demo again (must PASS). Repeat for B. Leave the worktree source clean (both patches reverted) at the end. If a candidate change makes any existing test fail, discard it and find another. Report back briefly: for each of A and B, one paragraph describing the change and confirming the three runs.""")
