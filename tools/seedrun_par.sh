#!/bin/bash
# tools/seedrun_par.sh <seed-id> [extra vcheck args]: like seedrun.sh, but on a scratch COPY of /repo's working tree
# (VERIF_REPO) with its own output directory (VERIF_OUT), so several seeds can be tried at once and /repo and the
# evidence of record are never touched.  Prints DETECTED / MISSED.  The copy is removed afterwards.
ID=$1; shift
D=/verif/seeded/$ID
PROP=$(python3 -c "import json;print(json.load(open('$D/meta.json'))['breaks_property'])")
PROP=${SEED_PROP:-$PROP}
R=/root/scratch/seedrepo_$ID; O=/root/scratch/seedout_$ID
rm -rf $R $O; mkdir -p $R $O
rsync -a --exclude .git --exclude '*.so' --exclude '__pycache__' /repo/ $R/
( cd $R && git init -q . && git apply "$D/patch.diff" ) || { echo "$ID: patch does not apply"; rm -rf $R $O; exit 2; }
rm -rf $R/.git
cd /verif
OUT=/root/scratch/seedrun_$ID.log
VERIF_REPO=$R VERIF_OUT=$O ./vcheck $PROP --tier ${SEED_TIER:-quick} "$@" > $OUT 2>&1
rc=$?
rm -rf $R $O
if [ $rc = 1 ] && grep -aq "^VIOLATION property=$PROP" $OUT; then
  echo "$ID: DETECTED by $PROP ($(grep -ac "^VIOLATION" $OUT) violation lines)"; grep -a -A2 "^VIOLATION" $OUT | head -6
else
  echo "$ID: MISSED by $PROP (rc=$rc)"; tail -3 $OUT
fi
