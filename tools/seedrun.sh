#!/bin/bash
# tools/seedrun.sh <seed-id> [extra vcheck args]: apply seeded/<id>/patch.diff to /repo, run the quick
# check of the property it breaks, undo the patch straight afterwards.  Prints DETECTED / MISSED.
ID=$1; shift
D=/verif/seeded/$ID
PROP=$(python3 -c "import json;print(json.load(open('$D/meta.json'))['breaks_property'])")
PROP=${SEED_PROP:-$PROP}
cd /repo && git diff --quiet || { echo "/repo has uncommitted changes"; exit 2; }
git -C /repo apply "$D/patch.diff" || exit 2
trap 'git -C /repo checkout -- .' EXIT
cd /verif
OUT=/root/scratch/seedrun_$ID.log
./vcheck $PROP --tier ${SEED_TIER:-quick} "$@" > $OUT 2>&1
rc=$?
git -C /repo checkout -- .
trap - EXIT
if [ $rc = 1 ] && grep -aq "^VIOLATION property=$PROP" $OUT; then
  echo "$ID: DETECTED by $PROP ($(grep -ac "^VIOLATION" $OUT) violation lines)"; grep -a -A2 "^VIOLATION" $OUT | head -6
else
  echo "$ID: MISSED by $PROP (rc=$rc)"; tail -3 $OUT
fi
