#!/usr/bin/env python3
"""Regenerate MANIFEST.json from tools/checks.json (one entry per claimed property)
so that the manifest stays schema-valid and not_applicable stays current."""
import json
import os

ROOT = os.path.dirname(os.path.dirname(os.path.abspath(__file__)))
spec = json.load(open(os.path.join(ROOT, 'tools', 'checks.json')))
props = [json.loads(l)['id'] for l in open(os.path.join(ROOT, 'properties.jsonl')) if l.strip()]
checks = []
claimed = []
for pid in props:
    c = spec['checks'].get(pid)
    if not c or not os.path.exists(os.path.join(ROOT, 'harness', pid.lower() + '.py')):
        continue
    claimed.append(pid)
    checks.append({
        'property_id': pid,
        'quick_cmd': './vcheck %s --tier quick' % pid,
        'thorough_cmd': './vcheck %s --tier thorough' % pid,
        'evidence_file': 'evidence/%s.json' % pid,
        'replay_cmd_template': './vcheck --replay {path}',
        'engine': 'crosshair-z3',
        'level_claimed': {'category': 'model_checking', 'text': c['text'], 'design_ref': 'DESIGN.md section 3, ' + pid},
        'level_note': c['note'],
        'technique': c.get('technique', spec['default_technique']),
    })
na = []
for pid in props:
    if pid not in claimed:
        na.append({'property_id': pid, 'reason': spec['not_applicable'].get(pid, 'check not built yet (work in progress); see DESIGN.md section 3 for the planned solver-based harness')})
m = {
    'version': 1,
    'setup_cmd': './setup.sh',
    'hooks': spec['hooks'],
    'engines': [{'name': 'crosshair-z3', 'path': 'engine/', 'serves_properties': claimed,
                 'kind_free_text': spec['engine_text']}],
    'checks': checks,
    'not_applicable': na,
    'notes': spec['notes'],
}
json.dump(m, open(os.path.join(ROOT, 'MANIFEST.json'), 'w'), indent=1)
print('claimed:', ' '.join(claimed))
print('not_applicable:', ' '.join(x['property_id'] for x in na))
