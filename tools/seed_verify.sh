#!/bin/bash
# tools/seed_verify.sh <worktree> <A|B> <seed-id> <property> : confirm a sub-agent's change in its scratch
# worktree (demo passes clean, fails with the change; full suite still passes with it), then file it
# under /verif/seeded/<seed-id>/.  Nothing is ever applied to /repo here.
set -u
WT=$1; X=$2; ID=$3; PROP=$4
M=$WT/MUTANT_$X
cd "$WT" || exit 2
git checkout -q -- falcon
run_demo() { PYTHONPATH=$WT timeout 300 /venv/bin/python "$M/demo.py" >/tmp/seed_$ID.demo 2>&1; echo $?; }
clean_rc=$(run_demo)
git apply "$M/patch.diff" || { echo "$ID: patch does not apply"; exit 1; }
mut_rc=$(run_demo); mut_out=$(tail -3 /tmp/seed_$ID.demo | tr '\n' ' ' | cut -c1-400)
suite=$(PYTHONPATH=$WT /venv/bin/python -m pytest -p no:cacheprovider --timeout=900 --continue-on-collection-errors -q tests 2>&1 | tail -1)
files=$(git diff --name-only | tr '\n' ' ')
git checkout -q -- falcon
echo "$ID: demo clean rc=$clean_rc mutated rc=$mut_rc ; suite with change: $suite"
case "$suite" in *"3440 passed"*) ok_suite=1;; *) ok_suite=0;; esac
if [ "$clean_rc" = 0 ] && [ "$mut_rc" != 0 ] && [ $ok_suite = 1 ]; then
  D=/verif/seeded/$ID; mkdir -p "$D"
  cp "$M/patch.diff" "$D/patch.diff"; cp "$M/demo.py" "$D/demo.py"; cp "$M/notes.md" "$D/notes.md" 2>/dev/null
  python3 - "$D" "$ID" "$PROP" "$files" "$suite" "$mut_out" <<'PY'
import json, sys, re
d, sid, prop, files, suite, out = sys.argv[1:7]
notes = open(d + '/notes.md').read() if __import__('os').path.exists(d + '/notes.md') else ''
json.dump({'id': sid, 'breaks_property': prop, 'files_touched': files.split(),
           'needs_to_manifest': 'see notes.md (written by the sub-agent that produced the change)',
           'origin': 'fresh sub-agent given only the property text and its own scratch worktree',
           'confirmed_by_me': {'demo_on_clean_tree': 'exit 0', 'demo_with_change': 'exit != 0: ' + out,
                               'suite_with_change': suite,
                               'commands': ['git apply patch.diff', 'PYTHONPATH=<wt> /venv/bin/python demo.py',
                                            'PYTHONPATH=<wt> /venv/bin/python -m pytest -p no:cacheprovider --timeout=900 --continue-on-collection-errors -q tests']},
           'detected_by': None}, open(d + '/meta.json', 'w'), indent=1)
PY
  echo "$ID: KEPT"
else
  echo "$ID: REJECTED"
fi
