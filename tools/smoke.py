#!/usr/bin/env python3
"""tools/smoke.py Cnn [tier]: run EVERY partition of a tier for a few seconds (no twin, no budget) to catch harness errors and
immediate counterexamples in partitions the wall budget of a normal run never reaches.  Prints one line per problem."""
import concurrent.futures as cf
import importlib
import os
import sys
sys.path.insert(0, os.path.dirname(os.path.dirname(os.path.abspath(__file__))))
from engine import driver, loader  # noqa: E402

prop = sys.argv[1]
tier = sys.argv[2] if len(sys.argv) > 2 else 'thorough'
secs = int(sys.argv[3]) if len(sys.argv) > 3 else 6
loader.install()
hm = importlib.import_module('harness.' + prop.lower())
parts = hm.partitions(tier, 0)
bad = 0


def one(p):
    p = dict(p, timeout=secs, twin=False)
    p.pop('per_path', None)
    return p['name'], driver._one(prop, prop.lower(), p, 10)


with cf.ThreadPoolExecutor(16) as ex:
    for name, rec in ex.map(one, parts):
        if rec['verdict'] in ('refuted', 'vacuous', 'error', 'harness_error') or 'engine' in (rec.get('detail') or '')[:8]:
            bad += 1
            print('%s %-45s %s %s' % (prop, name, rec['verdict'], (rec.get('detail') or '')[:200]), flush=True)
print('%s %s: %d partitions smoke-run, %d problems' % (prop, tier, len(parts), bad))
