#!/bin/bash
# Run every property's thorough command once, sequentially (sizing run; evidence of record comes from /verif itself).
cd "$(dirname "$0")/.."
for i in $(seq -w 1 20); do
  p=C$i
  s=$(date +%s)
  ./vcheck $p --tier thorough > thorough_$p.log 2>&1
  rc=$?
  echo "$p rc=$rc wall=$(( $(date +%s) - s ))s :: $(tail -1 thorough_$p.log)"
done
