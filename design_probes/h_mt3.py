from falcon.util import mediatypes as M
from typing import Tuple
class FakeRange:
    def __init__(self, score): self.score = score
    def match_score(self, mt): return self.score
NOT = M._MediaRange._NOT_MATCHING
def check(a0:int,a1:int,a2:int,a3:int,aq:int,am:bool, b0:int,b1:int,b2:int,b3:int,bq:int,bm:bool, c0:int,c1:int,c2:int,c3:int,cq:int,cm:bool) -> bool:
    """
    pre: 0<=a0<=1 and 0<=a1<=1 and 0<=a2<=1 and 0<=a3<=2 and 0<=aq<=1000
    pre: 0<=b0<=1 and 0<=b1<=1 and 0<=b2<=1 and 0<=b3<=2 and 0<=bq<=1000
    pre: 0<=c0<=1 and 0<=c1<=1 and 0<=c2<=1 and 0<=c3<=2 and 0<=cq<=1000
    post: _ == True
    """
    scores = [(a0,a1,a2,a3,aq) if am else NOT, (b0,b1,b2,b3,bq) if bm else NOT, (c0,c1,c2,c3,cq) if cm else NOT]
    orig = (M._parse_media_type, M._parse_media_ranges)
    M._parse_media_type = lambda s: None
    M._parse_media_ranges = lambda h: tuple(FakeRange(s) for s in scores)
    try:
        got = M.quality.__wrapped__('x/y', 'hdr')
    finally:
        M._parse_media_type, M._parse_media_ranges = orig
    # oracle: lexicographic max by hand
    best = None
    for s in scores:
        if s is NOT: continue
        if best is None: best = s; continue
        i = 0
        while i < 5 and s[i] == best[i]: i += 1
        if i < 5 and s[i] > best[i]: best = s
    exp = 0.0 if best is None else best[4]
    return got == exp
