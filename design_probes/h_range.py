import os
import falcon
from falcon.routing import static as S

class FakeFile:
    def __init__(self, data): self.d = data; self.p = 0; self.closed = 0
    def seek(self, off, whence=0):
        if whence == os.SEEK_END: self.p = len(self.d) + off
        else: self.p = off
        return self.p
    def read(self, size=-1):
        if size is None or size < 0: size = len(self.d) - self.p
        r = self.d[self.p:self.p+size]; self.p += len(r); return r
    def close(self): self.closed += 1
class St:
    def __init__(self, n): self.st_size = n

DATA = b'0123456789AB'
def check(size: int, kind: int, a: int, b: int, r0: int, r1: int) -> bool:
    """
    pre: 0 <= size <= 8
    pre: 0 <= kind <= 2 and 0 <= a <= 10 and 0 <= b <= 10
    pre: -1 <= r0 <= 9 and -1 <= r1 <= 9
    post: _ == True
    """
    data = DATA[:size]
    fh = FakeFile(data)
    if kind == 0:
        if b < a: return True
        rng = (a, b)
    elif kind == 1: rng = (a, -1)
    else:
        if a == 0: return True
        rng = (-a, -1)
    # oracle per RFC 9110 14.1.2 single byte range
    if size == 0: exp = ('full', b'')
    elif kind == 0: exp = ('416',) if a >= size else ('part', a, min(b, size-1))
    elif kind == 1: exp = ('416',) if a >= size else ('part', a, size-1)
    else: exp = ('part', max(size - a, 0), size-1)
    try:
        stream, length, cr = S._set_range(fh, St(size), rng)
    except falcon.HTTPRangeNotSatisfiable as e:
        return exp == ('416',) and fh.closed == 1
    if exp[0] == '416': return False
    body = stream.read(r0) + stream.read(r1) + stream.read()
    if exp[0] == 'full': return cr is None and length == 0 and body == b''
    _, lo, hi = exp
    return cr == (lo, hi, size) and length == hi - lo + 1 and body == data[lo:hi+1]
