import falcon, falcon.testing as ft
from falcon.request import Request, RequestOptions
import falcon.asgi

def mkreq(name, value):
    env = ft.create_environ(path='/x')
    env[name] = value
    return Request(env, options=RequestOptions())

def check_host(v: str) -> bool:
    """
    pre: len(v) <= 5
    post: True
    """
    req = mkreq('HTTP_HOST', v)
    try:
        h = req.host; p = req.port
    except falcon.HTTPError as e:
        return e.status_code // 100 == 4
    return True

def check_range(v: str) -> bool:
    """
    pre: len(v) <= 9
    pre: v.startswith('bytes=')
    post: _ == True
    """
    req = mkreq('HTTP_RANGE', v)
    try:
        r = req.range
    except falcon.HTTPError as e:
        return e.status_code == 400
    a, b = r
    return (a >= 0 and (b == -1 or b >= a)) or (a < 0 and b == -1)
