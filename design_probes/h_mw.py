import falcon, falcon.testing as ft
from typing import List, Tuple

class Boom(Exception): pass

def build(acts, independent, trace):
    class MW:
        def __init__(self, i): self.i = i
        def _do(self, phase, resp):
            trace.append((self.i, phase))
            a = acts[self.i*3 + phase]
            if a == 1:
                resp.complete = True
            elif a == 2:
                raise falcon.HTTPBadRequest()
        def process_request(self, req, resp): self._do(0, resp)
        def process_resource(self, req, resp, resource, params): self._do(1, resp)
        def process_response(self, req, resp, resource, ok):
            trace.append((self.i, 2, ok))
            a = acts[self.i*3+2]
            if a == 2: raise falcon.HTTPBadRequest()
    class Res:
        def on_get(self, req, resp):
            trace.append(('R',))
    app = falcon.App(middleware=[MW(0), MW(1)], independent_middleware=independent)
    app.add_route('/x', Res())
    return app

def call(app):
    env = ft.create_environ(path='/x')
    st = []
    def sr(status, headers, exc_info=None): st.append(status)
    body = b''.join(app(env, sr))
    return st

def oracle(acts, independent):
    t = []
    n = 2
    done = False; failed = False
    ran = []
    # request phase
    for i in range(n):
        t.append((i,0)); 
        a = acts[i*3]
        if a == 2:
            failed = True
            if not independent: pass
            break
        ran.append(i)
        if a == 1: done = True; break
    if not failed and not done:
        for i in range(n):
            t.append((i,1)); a = acts[i*3+1]
            if a == 2: failed = True; break
            if a == 1: done = True; break
    if not failed and not done:
        t.append(('R',))
    resp_stack = list(range(n)) if independent else ran
    ok = not failed
    for i in reversed(resp_stack):
        t.append((i,2,ok))
        if acts[i*3+2] == 2:
            ok = False
    return t

def check(a0:int,a1:int,a2:int,a3:int,a4:int,a5:int, independent: bool) -> bool:
    """
    pre: 0 <= a0 <= 2 and 0 <= a1 <= 2 and 0 <= a2 <= 2 and 0 <= a3 <= 2 and 0 <= a4 <= 2 and 0 <= a5 <= 2
    post: _ == True
    """
    acts = [a0,a1,a2,a3,a4,a5]
    trace = []
    app = build(acts, independent, trace)
    call(app)
    return trace == oracle(acts, independent)
