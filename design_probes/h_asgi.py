import falcon, falcon.asgi, falcon.testing as ft

def run_coro(coro):
    try:
        while True:
            coro.send(None)
            raise RuntimeError('coroutine suspended: needs a real loop')
    except StopIteration as e:
        return e.value

def build(acts, trace):
    class MW:
        def __init__(self, i): self.i = i
        async def process_request(self, req, resp):
            trace.append((self.i, 0)); a = acts[self.i*2]
            if a == 1: resp.complete = True
            elif a == 2: raise falcon.HTTPBadRequest()
        async def process_response(self, req, resp, resource, ok):
            trace.append((self.i, 2, ok))
            if acts[self.i*2+1] == 2: raise falcon.HTTPBadRequest()
    class Res:
        async def on_get(self, req, resp):
            trace.append(('R',)); resp.media = {'a': 1}
    app = falcon.asgi.App(middleware=[MW(0), MW(1)])
    app.add_route('/x', Res())
    return app

def check(a0:int,a1:int,a2:int,a3:int) -> int:
    """
    pre: 0 <= a0 <= 2 and 0 <= a1 <= 2 and 0 <= a2 <= 2 and 0 <= a3 <= 2
    post: _ >= 2
    """
    acts = [a0,a1,a2,a3]
    trace = []
    app = build(acts, trace)
    scope = ft.create_scope(path='/x')
    events = [{'type': 'http.request', 'body': b'', 'more_body': False}]
    sent = []
    async def receive():
        if events: return events.pop(0)
        return {'type': 'http.disconnect'}
    async def send(ev): sent.append(ev)
    run_coro(app(scope, receive, send))
    return len(sent)
