import asyncio, collections
from asyncio import events
import falcon, falcon.asgi

class MiniLoop(asyncio.AbstractEventLoop):
    def __init__(self): self._ready = collections.deque()
    def get_debug(self): return False
    def is_running(self): return True
    def is_closed(self): return False
    def time(self): return 0.0
    def create_future(self): return asyncio.Future(loop=self)
    def create_task(self, coro, *, name=None, context=None): return asyncio.Task(coro, loop=self, name=name)
    def call_soon(self, cb, *args, context=None):
        h = events.Handle(cb, args, self, context); self._ready.append(h); return h
    def call_exception_handler(self, ctx): pass

def mkapp():
    class MW:
        async def process_request(self, req, resp): req.context.tag = req.path
        async def process_response(self, req, resp, resource, ok): resp.set_header('X-Tag', req.context.tag)
    class Item:
        async def on_post(self, req, resp, n):
            body = await req.get_media()
            resp.media = {'n': n, 'echo': body, 'q': req.get_param('q')}
    class Boom:
        async def on_get(self, req, resp): raise falcon.HTTPConflict(title='boom')
    app = falcon.asgi.App(middleware=[MW()])
    app.add_route('/item/{n:int}', Item()); app.add_route('/boom', Boom())
    return app

REQS = [('POST', '/item/7', b'q=a', b'{"v": 1}'), ('POST', '/item/42', b'q=b', b'[2]'), ('GET', '/boom', b'', b''), ('GET', '/nope', b'', b'')]

def run(app, picks, choices):
    loop = MiniLoop(); events._set_running_loop(loop)
    try:
        gates = []   # (future) waiting to be opened by the scheduler
        outs = []
        tasks = []
        for idx in picks:
            method, path, qs, body = REQS[idx]
            sent = []; outs.append(sent)
            chunks = collections.deque([{'type': 'http.request', 'body': body[:2], 'more_body': True}, {'type': 'http.request', 'body': body[2:], 'more_body': False}])
            async def receive(chunks=chunks):
                f = loop.create_future(); gates.append(f); await f
                return chunks.popleft() if chunks else {'type': 'http.disconnect'}
            async def send(ev, sent=sent):
                f = loop.create_future(); gates.append(f); await f
                sent.append(ev)
            scope = {'type': 'http', 'asgi': {'version': '3.0', 'spec_version': '2.1'}, 'http_version': '1.1', 'method': method,
                     'scheme': 'http', 'path': path, 'raw_path': path.encode(), 'query_string': qs, 'root_path': '',
                     'headers': [(b'host', b'x'), (b'content-type', b'application/json'), (b'content-length', str(len(body)).encode())],
                     'client': ('1.1.1.1', 1), 'server': ('x', 80)}
            tasks.append(loop.create_task(app(scope, receive, send)))
        ci = 0; steps = 0
        while not all(t.done() for t in tasks):
            steps += 1
            if steps > 3000: raise RuntimeError('livelock')
            if loop._ready:
                h = loop._ready.popleft()
                if not h._cancelled: h._run()
                continue
            if not gates: raise RuntimeError('deadlock')
            k = 0
            if len(gates) > 1:
                k = 1 if (ci < len(choices) and choices[ci]) else 0
                ci += 1
            gates.pop(k).set_result(None)
        for t in tasks: t.result()
        return outs
    finally:
        events._set_running_loop(None)

def check(p0: int, p1: int, c0: bool, c1: bool, c2: bool, c3: bool, c4: bool, c5: bool, c6: bool, c7: bool) -> int:
    """
    pre: 0 <= p0 <= 3 and 0 <= p1 <= 3
    post: _ != 0
    """
    app = mkapp()
    serial = [run(app, [p0], [])[0], run(app, [p1], [])[0]]
    app2 = mkapp()
    conc = run(app2, [p0, p1], [c0, c1, c2, c3, c4, c5, c6, c7])
    return 1 if conc == serial else 0
