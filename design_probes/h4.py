import sys
sys.modules['falcon.cyutil'] = None
import falcon.util.uri as U

def _hv(c):
    if 48 <= c <= 57: return c - 48
    if 65 <= c <= 70: return c - 55
    if 97 <= c <= 102: return c - 87
    return -1
class HexTable:
    def __getitem__(self, key):
        if len(key) == 2:
            a = _hv(key[0]); b = _hv(key[1])
            if a >= 0 and b >= 0:
                return bytes([a * 16 + b])
        raise KeyError(key)
# exhaustive equality of the stub with the real table
_real = U._HEX_TO_BYTE
_stub = HexTable()
for n in (0, 1, 2, 3):
    import itertools
    for t in itertools.product(range(256), repeat=n) if n <= 2 else [(37,37,37),(48,48,48)]:
        k = bytes(t)
        try: r = _real[k]
        except KeyError: r = None
        try: s = _stub[k]
        except KeyError: s = None
        assert r == s, k
U._HEX_TO_BYTE = _stub

def ref_decode(s: str, plus: bool) -> str:
    b = s.encode('utf-8'); out = []; i = 0; n = len(b)
    while i < n:
        c = b[i]
        if c == 0x25 and i + 2 < n and _hv(b[i+1]) >= 0 and _hv(b[i+2]) >= 0:
            out.append(_hv(b[i+1]) * 16 + _hv(b[i+2])); i += 3
        elif c == 0x2b and plus: out.append(0x20); i += 1
        else: out.append(c); i += 1
    return bytes(out).decode('utf-8', 'replace')

def check0(s: str, plus: bool) -> bool:
    """
    pre: len(s) == 0
    post: _ == True
    """
    return U.decode(s, plus) == ref_decode(s, plus)
def ascii0(s: str, plus: bool) -> bool:
    """
    pre: len(s) == 0
    pre: s.isascii()
    post: _ == True
    """
    return U.decode(s, plus) == ref_decode(s, plus)

def check1(s: str, plus: bool) -> bool:
    """
    pre: len(s) == 1
    post: _ == True
    """
    return U.decode(s, plus) == ref_decode(s, plus)
def ascii1(s: str, plus: bool) -> bool:
    """
    pre: len(s) == 1
    pre: s.isascii()
    post: _ == True
    """
    return U.decode(s, plus) == ref_decode(s, plus)

def check2(s: str, plus: bool) -> bool:
    """
    pre: len(s) == 2
    post: _ == True
    """
    return U.decode(s, plus) == ref_decode(s, plus)
def ascii2(s: str, plus: bool) -> bool:
    """
    pre: len(s) == 2
    pre: s.isascii()
    post: _ == True
    """
    return U.decode(s, plus) == ref_decode(s, plus)

def check3(s: str, plus: bool) -> bool:
    """
    pre: len(s) == 3
    post: _ == True
    """
    return U.decode(s, plus) == ref_decode(s, plus)
def ascii3(s: str, plus: bool) -> bool:
    """
    pre: len(s) == 3
    pre: s.isascii()
    post: _ == True
    """
    return U.decode(s, plus) == ref_decode(s, plus)

def check4(s: str, plus: bool) -> bool:
    """
    pre: len(s) == 4
    post: _ == True
    """
    return U.decode(s, plus) == ref_decode(s, plus)
def ascii4(s: str, plus: bool) -> bool:
    """
    pre: len(s) == 4
    pre: s.isascii()
    post: _ == True
    """
    return U.decode(s, plus) == ref_decode(s, plus)
