from falcon.routing.compiled import CompiledRouter
class R:
    def __init__(self, n): self.n = n
    def on_get(self, req, resp, **kw): pass
r = CompiledRouter()
r.add_route('/a/{x}', R(1))
r.add_route('/a/b', R(2))
r.add_route('/a/{x}/c', R(3))
r.add_route('/a/v{y}-{z}', R(4))
r.add_route('/a/v{y}-{z}/c', R(5))
r.add_route('/n/{k:int}', R(6))
r.add_route('/n/{k:int}/c', R(7))
r.add_route('/p/{rest:path}', R(8))
r.find('/')
print(r.finder_src)

import re
def oracle(path: str):
    segs = path.lstrip('/').split('/')
    n = len(segs)
    if n == 2 and segs[0] == 'a':
        if segs[1] == 'b': return (2, {})
        m = re.match(r'^v(?P<y>.+)-(?P<z>.+)$', segs[1])
        if m: return (4, m.groupdict())
        return (1, {'x': segs[1]})
    if n == 3 and segs[0] == 'a' and segs[2] == 'c':
        if segs[1] == 'b': 
            pass
        m = re.match(r'^v(?P<y>.+)-(?P<z>.+)$', segs[1])
        if m: return (5, m.groupdict())
        return (3, {'x': segs[1]})
    return None

def check(path: str) -> bool:
    """
    pre: len(path) <= 8
    pre: path.startswith('/a/')
    post: _ == True
    """
    got = r.find(path)
    exp = oracle(path)
    if got is None or exp is None:
        return got is None and exp is None
    return got[0].n == exp[0] and got[2] == exp[1]
