import asyncio, collections
from asyncio import events
from falcon.asgi.ws import _BufferedReceiver

class MiniLoop(asyncio.AbstractEventLoop):
    def __init__(self): self._ready = collections.deque(); self._debug = False
    def get_debug(self): return False
    def is_running(self): return True
    def is_closed(self): return False
    def time(self): return 0.0
    def create_future(self): return asyncio.Future(loop=self)
    def create_task(self, coro, *, name=None, context=None):
        return asyncio.Task(coro, loop=self, name=name)
    def call_soon(self, cb, *args, context=None):
        h = events.Handle(cb, args, self, context); self._ready.append(h); return h
    def call_exception_handler(self, ctx): raise RuntimeError(str(ctx))
    def step(self):
        h = self._ready.popleft()
        if not h._cancelled: h._run()

def scenario(k: int, cap: int, choices):
    loop = MiniLoop()
    events._set_running_loop(loop)
    try:
        pending = []  # futures for outstanding server receive() calls
        msgs = [{'type': 'websocket.receive', 'text': str(i)} for i in range(k)] + [{'type': 'websocket.disconnect', 'code': 1000}]
        pulls = [0]
        async def server_receive():
            f = loop.create_future(); pending.append(f); pulls[0] += 1
            return await f
        br = _BufferedReceiver(server_receive, cap)
        got = []
        async def app():
            br.start()
            for i in range(k + 1):
                ev = await br.receive()
                got.append(ev)
                if ev['type'] == 'websocket.disconnect': break
            await br.stop()
        t = loop.create_task(app())
        ci = 0
        steps = 0
        delivered = 0
        while not t.done():
            steps += 1
            if steps > 200: return ('livelock', got)
            can_deliver = bool(pending) and delivered < len(msgs)
            can_step = bool(loop._ready)
            if can_deliver and can_step:
                c = choices[ci] if ci < len(choices) else False
                ci += 1
            elif can_deliver: c = True
            elif can_step: c = False
            else: return ('deadlock', got)
            if c:
                f = pending.pop(0); f.set_result(msgs[delivered]); delivered += 1
            else:
                loop.step()
            if len(br._messages) > cap: return ('overflow', got)
        t.result()
        return ('ok', got)
    finally:
        events._set_running_loop(None)

def check(k: int, cap: int, c0: bool, c1: bool, c2: bool, c3: bool, c4: bool, c5: bool) -> bool:
    """
    pre: 0 <= k <= 2 and 1 <= cap <= 2
    post: _ == True
    """
    st, got = scenario(k, cap, [c0,c1,c2,c3,c4,c5])
    if st != 'ok': return False
    exp = [str(i) for i in range(k)]
    return [e.get('text') for e in got if e['type'] == 'websocket.receive'] == exp and got[-1]['type'] == 'websocket.disconnect'
