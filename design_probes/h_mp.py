import sys, io
sys.modules['falcon.cyutil'] = None
import falcon
from falcon.media.multipart import MultipartForm, MultipartParseOptions, MultipartParseError
import falcon.util.reader as R
assert falcon.util.BufferedReader is R.BufferedReader

class Src:
    def __init__(self, data): self.data = data; self.pos = 0
    def read(self, size=-1):
        if size is None or size < 0: size = len(self.data) - self.pos
        r = self.data[self.pos:self.pos+size]; self.pos += len(r); return r

def encode(parts, boundary):
    out = b''
    for name, content in parts:
        out += b'--' + boundary + b'\r\n'
        out += b'Content-Disposition: form-data; name="' + name + b'"\r\n\r\n'
        out += content + b'\r\n'
    out += b'--' + boundary + b'--\r\n'
    return out

def check(c0: bytes, c1: bytes, k: int) -> bool:
    """
    pre: len(c0) == 3 and len(c1) == 2
    pre: all(b in (45, 13, 10, 98) for b in c0) and all(b in (45, 13, 10, 98) for b in c1)
    pre: k == 2
    post: _ == True
    """
    boundary = b'b'
    # reference encoder precondition: content must not contain CRLF--b
    if b'\r\n--b' in (b'\r\n' + c0 + b'\r\n') or b'\r\n--b' in (b'\r\n' + c1 + b'\r\n'):
        return True
    body = encode([(b'a', c0), (b'z', c1)], boundary)
    opts = MultipartParseOptions()
    form = MultipartForm(Src(body), boundary, len(body), opts)
    form._stream._chunk_size = 8
    got = []
    for i, part in enumerate(form):
        if i == 0 and k < 3:
            got.append((part.name, part.stream.read(k) ))
        else:
            got.append((part.name, part.stream.read()))
    return len(got) == 2 and got[0][0] == 'a' and got[1] == ('z', c1) and got[0][1] == c0[:k] if k < 3 else got[0][1] == c0
