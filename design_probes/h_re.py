import re
P1 = re.compile('^v(?P<y>.+)-(?P<z>.+)$')
P2 = re.compile('^v(?P<y>.+)\\-(?P<z>.+)$')
def a(s: str) -> int:
    """
    pre: len(s) <= 5
    post: _ != 0
    """
    m1 = P1.match(s); m2 = P2.match(s)
    if (m1 is None) != (m2 is None): return 0
    if m1 is None: return 1
    return 1 if m1.groupdict() == m2.groupdict() else 0
def b(s: str) -> int:
    """
    pre: len(s) <= 5
    post: _ != 0
    """
    m1 = P1.match(s)
    if m1 is None: return 1
    d = m1.groupdict()
    return 1 if (d['y'] == m1.group('y') and d['z'] == m1.group('z')) else 0
def c(s: str) -> int:
    """
    pre: len(s) <= 5
    post: _ != 0
    """
    m1 = P1.match(s)
    if m1 is None: return 1
    d = m1.groupdict()
    # greedy reference: y is everything up to the LAST '-' that leaves a non-empty z
    body = s[1:]
    if body.endswith('\n'): body = body[:-1]
    i = body.rfind('-', 0, len(body) - 1)
    return 1 if (i >= 1 and d == {'y': body[:i], 'z': body[i+1:]}) else 0
P3 = re.compile('^(?P<k>.+)x(?P<w>.+)$')
def d(s: str) -> int:
    """
    pre: len(s) <= 4
    post: _ != 0
    """
    m = P3.match(s)
    if m is None: return 1
    g = m.groupdict()
    k = g.pop('k')
    return 1 if isinstance(k, str) and k.strip() == k.strip() else 0
