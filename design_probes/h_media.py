import falcon, falcon.testing as ft
from falcon.request import Request, RequestOptions
from falcon.response import Response, ResponseOptions

class Src:
    def __init__(self, data): self.d = data; self.p = 0; self.reads = 0
    def read(self, size=-1):
        self.reads += 1
        if size is None or size < 0: size = len(self.d) - self.p
        r = self.d[self.p:self.p+size]; self.p += len(r); return r

def roundtrip(doc):
    resp = Response(options=ResponseOptions())
    resp.media = doc
    body = resp.render_body()
    env = ft.create_environ(path='/x', method='POST', headers={'Content-Type': resp.content_type})
    src = Src(body)
    env['wsgi.input'] = src; env['CONTENT_LENGTH'] = str(len(body))
    req = Request(env, options=RequestOptions())
    got = req.get_media()
    n = src.reads
    again = req.get_media()
    return got, again, src.reads - n

def check_str(s: str, i: int, b: bool) -> bool:
    """
    pre: len(s) <= 2
    post: _ == True
    """
    doc = {'k': [s, i, b, None]}
    got, again, extra = roundtrip(doc)
    return got == doc and again is got and extra == 0

def check_bad(data: bytes) -> bool:
    """
    pre: len(data) <= 3
    post: _ == True
    """
    env = ft.create_environ(path='/x', method='POST', headers={'Content-Type': 'application/json'})
    src = Src(data); env['wsgi.input'] = src; env['CONTENT_LENGTH'] = str(len(data))
    req = Request(env, options=RequestOptions())
    try:
        v = req.get_media()
    except falcon.HTTPError as e:
        first = e
        try: req.get_media()
        except falcon.HTTPError as e2: return e2 is first and 400 <= e.status_code < 500
        return False
    return req.get_media() is v or req.get_media() == v
