import sys, time, importlib, collections
from crosshair.core_and_libs import analyze_function, run_checkables, MessageType
from crosshair.options import AnalysisOptionSet
from crosshair.pure_importer import prefer_pure_python_imports
import crosshair.libimpl.relib as _relib
def _fixed_groupdict(self, default=None):
    ret = {}
    for name, idx in self.re.groupindex.items():
        span = self._groups[idx]
        ret[name] = default if span is None else self.string[span[0]:span[1]]
    return ret
_relib._Match.groupdict = _fixed_groupdict

def run(modname, fname, timeout=60, per_path=None):
    with prefer_pure_python_imports():
        mod = importlib.import_module(modname)
    fn = getattr(mod, fname)
    stats = collections.Counter()
    opts = AnalysisOptionSet(per_condition_timeout=timeout, report_all=True, stats=stats)
    if per_path: opts.per_path_timeout = per_path
    t=time.time()
    msgs = run_checkables(analyze_function(fn, opts))
    dt=time.time()-t
    for m in msgs:
        print(fname, m.state.name, m.message[:600])
    print(dict(stats), round(dt,1))
if __name__ == '__main__':
    run(sys.argv[1], sys.argv[2], float(sys.argv[3]) if len(sys.argv)>3 else 60)
