import asyncio, collections
from asyncio import events
import falcon, falcon.asgi
from falcon import errors

class MiniLoop(asyncio.AbstractEventLoop):
    def __init__(self): self._ready = collections.deque()
    def get_debug(self): return False
    def is_running(self): return True
    def is_closed(self): return False
    def time(self): return 0.0
    def create_future(self): return asyncio.Future(loop=self)
    def create_task(self, coro, *, name=None, context=None): return asyncio.Task(coro, loop=self, name=name)
    def call_soon(self, cb, *args, context=None):
        h = events.Handle(cb, args, self, context); self._ready.append(h); return h
    def call_exception_handler(self, ctx): pass
    def run(self, coro, max_steps=2000):
        t = self.create_task(coro)
        n = 0
        while not t.done():
            if not self._ready: raise RuntimeError('deadlock')
            h = self._ready.popleft(); n += 1
            if n > max_steps: raise RuntimeError('livelock')
            if not h._cancelled: h._run()
        return t.result()

OPS = ['accept', 'close', 'send_text', 'recv_text', 'raise404', 'raiseVal', 'close_bad']

def session(script, client_msgs, queue, ver_idx):
    loop = MiniLoop(); events._set_running_loop(loop)
    try:
        sent = []; raised = []
        class Res:
            async def on_websocket(self, req, ws):
                for op in script:
                    try:
                        if op == 0: await ws.accept()
                        elif op == 1: await ws.close()
                        elif op == 2: await ws.send_text('hi')
                        elif op == 3: raised.append(('got', await ws.receive_text()))
                        elif op == 4: raise falcon.HTTPNotFound()
                        elif op == 5: raise ValueError('x')
                        elif op == 6: await ws.close(1005)
                    except (errors.OperationNotAllowed, errors.WebSocketDisconnected, errors.PayloadTypeError) as e:
                        raised.append(type(e).__name__)
        app = falcon.asgi.App()
        app.ws_options.max_receive_queue = queue
        app.add_route('/ws', Res())
        inbox = collections.deque([{'type': 'websocket.connect'}] + client_msgs)
        inbox.append({'type': 'websocket.disconnect', 'code': 1001})
        async def receive():
            if inbox:
                ev = inbox.popleft()
                if ev['type'] == 'websocket.disconnect': sent.append({'type': '#lost'})
                return ev
            f = loop.create_future()
            return await f
        async def send(ev): sent.append(ev)
        scope = {'type': 'websocket', 'asgi': {'version': '3.0', 'spec_version': ['2.0','2.1','2.3','2.4'][ver_idx]},
                 'http_version': '1.1', 'scheme': 'ws', 'path': '/ws', 'raw_path': b'/ws', 'query_string': b'',
                 'root_path': '', 'headers': [(b'host', b'x')], 'client': ('127.0.0.1', 1), 'server': ('x', 80), 'subprotocols': []}
        loop.run(app(scope, receive, send))
        return sent, raised
    finally:
        events._set_running_loop(None)

def monitor(sent):
    state = 'handshake'
    for ev in sent:
        t = ev['type']
        if t == '#lost':
            state = 'lost'; continue
        if state in ('closed', 'lost'): return False
        if t == 'websocket.accept':
            if state != 'handshake': return False
            state = 'open'
        elif t == 'websocket.send':
            if state != 'open': return False
        elif t == 'websocket.close':
            state = 'closed'
        else: return False
    return state in ('closed', 'lost')   # responder always ends with connection closed/denied (client still there)

def check(o0: int, o1: int, o2: int, queue: int, ver: int, nmsg: int) -> bool:
    """
    pre: 0 <= o0 <= 6 and 0 <= o1 <= 6 and 0 <= o2 <= 6
    pre: 0 <= queue <= 1 and 0 <= ver <= 3 and 0 <= nmsg <= 1
    post: _ == True
    """
    msgs = [{'type': 'websocket.receive', 'text': 'm'}] * nmsg
    sent, raised = session([o0, o1, o2], msgs, queue, ver)
    return monitor(sent)
