import falcon
from falcon.response import Response, ResponseOptions
from falcon.errors import HeaderNotSupported
NAMES = ['X-A', 'x-a', 'X-a', 'Content-Type', 'CONTENT-TYPE', 'Set-Cookie']

def step(resp, model, cookies, op, ni, v):
    name = NAMES[ni]; low = name.lower()
    try:
        if op == 0: resp.set_header(name, v)
        elif op == 1: resp.append_header(name, v)
        elif op == 2: resp.delete_header(name)
        elif op == 3: resp.content_type = v
        else: resp.set_headers({name: v})
        raised = False
    except HeaderNotSupported:
        raised = True
    if low == 'set-cookie' and op != 3:
        if op == 1:
            cookies.append(v); return not raised
        return raised
    if raised: return False
    if op == 0 or op == 4: model[low] = v
    elif op == 1: model[low] = (model[low] + ', ' + v) if low in model else v
    elif op == 2: model.pop(low, None)
    elif op == 3: model['content-type'] = v
    return True

def check(op0:int, n0:int, v0:str, op1:int, n1:int, v1:str, op2:int, n2:int, v2:str) -> bool:
    """
    pre: 0 <= op0 <= 4 and 0 <= op1 <= 4 and 0 <= op2 <= 4
    pre: 0 <= n0 <= 5 and 0 <= n1 <= 5 and 0 <= n2 <= 5
    pre: len(v0) <= 2 and len(v1) <= 2 and len(v2) <= 2
    post: _ == True
    """
    resp = Response(options=ResponseOptions()); model = {}; cookies = []
    for op, n, v in ((op0,n0,v0),(op1,n1,v1),(op2,n2,v2)):
        if not step(resp, model, cookies, op, n, v): return False
        for nm in NAMES[:5]:
            if resp.get_header(nm) != model.get(nm.lower()): return False
    out = resp._wsgi_headers()
    plain = [(k, val) for k, val in out if k != 'set-cookie']
    if sorted(plain) != sorted(model.items()): return False
    return [val for k, val in out if k == 'set-cookie'] == cookies
