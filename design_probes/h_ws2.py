import asyncio, collections
from asyncio import events
from falcon.asgi.ws import WebSocket, _BufferedReceiver
from falcon import errors, media
from falcon.constants import WebSocketPayloadType

class MiniLoop(asyncio.AbstractEventLoop):
    def __init__(self): self._ready = collections.deque()
    def get_debug(self): return False
    def is_running(self): return True
    def is_closed(self): return False
    def time(self): return 0.0
    def create_future(self): return asyncio.Future(loop=self)
    def create_task(self, coro, *, name=None, context=None): return asyncio.Task(coro, loop=self, name=name)
    def call_soon(self, cb, *args, context=None):
        h = events.Handle(cb, args, self, context); self._ready.append(h); return h
    def call_exception_handler(self, ctx): pass

def scenario(k, cap, disc, script, choices):
    loop = MiniLoop(); events._set_running_loop(loop)
    try:
        pending = []; sent = []
        msgs = [{'type': 'websocket.receive', 'text': str(i)} for i in range(k)]
        if disc: msgs.append({'type': 'websocket.disconnect', 'code': 1001})
        async def server_receive():
            f = loop.create_future(); pending.append(f); return await f
        async def server_send(ev): sent.append(ev)
        mh = {WebSocketPayloadType.TEXT: media.JSONHandlerWS(), WebSocketPayloadType.BINARY: media.JSONHandlerWS()}
        ws = WebSocket('2.3', {}, server_receive, server_send, mh, cap, {})
        log = []
        async def app():
            await ws.accept()
            for op in script:
                try:
                    if op == 0: log.append(('got', await ws.receive_text()))
                    elif op == 1: await ws.send_text('s'); log.append(('sent',))
                    elif op == 2: await ws.close(); log.append(('closed',))
                    else: await asyncio.sleep(0)
                except errors.WebSocketDisconnected: log.append(('disc',))
            await ws.close()
        t = loop.create_task(app())
        ci = 0; steps = 0; delivered = 0; maxq = 0; seen_disc_step = None
        while not t.done():
            steps += 1
            if steps > 400: return ('livelock', log, sent, maxq)
            can_deliver = bool(pending) and delivered < len(msgs)
            can_step = bool(loop._ready)
            if can_deliver and can_step:
                c = choices[ci] if ci < len(choices) else False; ci += 1
            elif can_deliver: c = True
            elif can_step: c = False
            else: return ('blocked', log, sent, maxq)   # app waits for a client that stays silent
            if c:
                f = pending.pop(0)
                if not f.cancelled(): f.set_result(msgs[delivered]); delivered += 1
            else:
                h = loop._ready.popleft()
                if not h._cancelled: h._run()
            maxq = max(maxq, len(ws._buffered_receiver._messages))
        t.result()
        leftover = ws._buffered_receiver._pump_task
        return ('ok', log, sent, maxq, leftover)
    finally:
        events._set_running_loop(None)

def check(k: int, cap: int, disc: bool, o0: int, o1: int, o2: int, c0: bool, c1: bool, c2: bool, c3: bool, c4: bool, c5: bool, c6: bool, c7: bool) -> int:
    """
    pre: 0 <= k <= 2 and 1 <= cap <= 2
    pre: 0 <= o0 <= 3 and 0 <= o1 <= 3 and 0 <= o2 <= 3
    post: _ != 0
    """
    r = scenario(k, cap, disc, [o0, o1, o2], [c0,c1,c2,c3,c4,c5,c6,c7])
    st, log, sent, maxq = r[0], r[1], r[2], r[3]
    if st == 'livelock': return 0
    if maxq > cap: return 0
    gots = [x[1] for x in log if x[0] == 'got']
    if gots != [str(i) for i in range(len(gots))]: return 0        # FIFO, once each, no loss
    if len(gots) > k: return 0
    if st == 'blocked':
        # legitimate only if the app is in a receive with nothing left to deliver
        return 1 if not disc and len(gots) == k else 0
    # protocol: accept first, at most one close, nothing after close
    types = [e['type'] for e in sent]
    if types[:1] != ['websocket.accept']: return 0
    if types.count('websocket.close') > 1: return 0
    if 'websocket.close' in types and types[-1] != 'websocket.close': return 0
    if r[4] is not None: return 0                                   # pump stopped
    return 1
