import os
import falcon
from falcon.routing import static as S
class SeekRec:
    def __init__(self): self.pos = None; self.closed = 0
    def seek(self, off, whence=0): self.pos = (off, whence)
    def close(self): self.closed += 1
class St:
    def __init__(self, n): self.st_size = n
class LightRNS(Exception):
    def __init__(self, n): self.n = n
falcon.HTTPRangeNotSatisfiable = LightRNS   # stub: error object construction formats str(size)
def check(size: int, first: int, last: int) -> bool:
    """
    pre: size >= 0
    pre: (first >= 0 and (last == -1 or last >= first)) or (first < 0 and last == -1)
    post: _ == True
    """
    fh = SeekRec()
    try:
        stream, length, cr = S._set_range(fh, St(size), (first, last))
    except falcon.HTTPNotFound:
        return False
    except LightRNS as e:
        return size > 0 and first >= size and fh.closed == 1 and e.n == size
    if size == 0: return cr is None and length == 0 and stream is fh
    if first < 0:
        lo = size + first if -first <= size else 0
        hi = size - 1
    else:
        if first >= size: return False
        lo = first; hi = size - 1 if (last == -1 or last >= size) else last
    abs_pos = fh.pos[0] if fh.pos[1] == 0 else size + fh.pos[0]
    return cr == (lo, hi, size) and length == hi - lo + 1 and abs_pos == lo and stream.remaining == length
