import re, itertools
from falcon.routing.compiled import CompiledRouter, UnacceptableRouteError

FIELD = re.compile(r'{([^}:]*)(?::([^}(]*)(?:\(([^}]*)\))?)?}')

class Res:
    def __init__(self, t): self.t = t
    def on_get(self, req, resp, **kw): pass

class Node:
    def __init__(self, seg):
        self.seg = seg; self.children = []; self.template = None
        ms = list(FIELD.finditer(seg))
        self.kind = 'lit' if not ms else ('simple' if ms[0].span() == (0, len(seg)) and len(ms) == 1 else 'complex')
        self.fields = [(m.group(1), m.group(2), m.group(3)) for m in ms]
        if self.kind == 'complex':
            pat = ''; pos = 0
            for m in ms:
                pat += re.escape(seg[pos:m.start()]) + '(?P<%s>.+)' % m.group(1); pos = m.end()
            pat += re.escape(seg[pos:])
            self.rx = re.compile('^' + pat + '$')

def conv(cname, arg, frag):
    """reference converters: int / int(n) only; returns (ok, value)"""
    if cname == 'int':
        if arg and len(frag) != int(arg): return False, None
        if not frag.isdigit() or not frag.isascii() and False: return False, None
        try: return True, int(frag)
        except ValueError: return False, None
    raise NotImplementedError(cname)

def build_trie(templates):
    roots = []
    for t in templates:
        nodes = roots; segs = t.lstrip('/').split('/')
        for i, s in enumerate(segs):
            for n in nodes:
                if n.seg == s: break
            else:
                n = Node(s); nodes.append(n)
            if i == len(segs) - 1: n.template = t
            nodes = n.children
    return roots

def walk(nodes, segs, i, params):
    order = sorted(nodes, key=lambda n: {'lit': 0, 'complex': 1, 'simple': 2}[n.kind])
    if i >= len(segs): return None
    for n in order:
        p = dict(params)
        if n.kind == 'lit':
            if segs[i] != n.seg: continue
        elif n.kind == 'complex':
            m = n.rx.match(segs[i])
            if not m: continue
            ok = True
            for name, cname, arg in n.fields:
                v = m.group(name)
                if cname:
                    good, v = conv(cname, arg, v)
                    if not good: ok = False; break
                p[name] = v
            if not ok: continue
        else:
            name, cname, arg = n.fields[0]
            if cname == 'path':
                if n.template is not None:
                    p[name] = '/'.join(segs[i:]); return (n.template, p)
                continue
            v = segs[i]
            if cname:
                good, v = conv(cname, arg, v)
                if not good: continue
            p[name] = v
        if i == len(segs) - 1 and n.template is not None:
            return (n.template, p)
        r = walk(n.children, segs, i + 1, p)
        if r is not None: return r
    return None

def oracle(templates, path):
    return walk(build_trie(templates), path.lstrip('/').split('/'), 0, {})

def make_router(templates):
    r = CompiledRouter(); acc = []
    for t in templates:
        try: r.add_route(t, Res(t)); acc.append(t)
        except UnacceptableRouteError: pass
    return r, acc

def compare(router, acc, path):
    got = router.find(path)
    exp = oracle(acc, path)
    if got is None or exp is None: return 1 if (got is None and exp is None) else 0
    return 1 if (got[3] == exp[0] and got[2] == exp[1]) else 0

R0, A0 = make_router(['/a', '/{x}', '/v{y}-{z}', '/a/b', '/{x}/b', '/v{y}-{z}/{s}', '/{x}/{t}.{u}'])
R0.find('/')
def rs0(path: str) -> int:
    """
    pre: len(path) <= 7
    pre: path.startswith('/')
    post: _ != 0
    """
    return compare(R0, A0, path)

R1, A1 = make_router(['/a/{s}', '/{x}/b', '/{n:int}/{m:int}', '/v{y}-{z}/b'])
R1.find('/')
def rs1(path: str) -> int:
    """
    pre: len(path) <= 7
    pre: path.startswith('/')
    post: _ != 0
    """
    return compare(R1, A1, path)

R2, A2 = make_router(['/{n:int}', '/{n:int}/b', '/a/{p:path}', '/{k:int(2)}x{w}/{s}'])
R2.find('/')
def rs2(path: str) -> int:
    """
    pre: len(path) <= 7
    pre: path.startswith('/')
    post: _ != 0
    """
    return compare(R2, A2, path)

R3, A3 = make_router(['/a/{m:int}', '/a/{t}.{u}', '/a/b', '/{x}/{p:path}'])
R3.find('/')
def rs3(path: str) -> int:
    """
    pre: len(path) <= 7
    pre: path.startswith('/')
    post: _ != 0
    """
    return compare(R3, A3, path)

R4, A4 = make_router(['/{k:int(2)}x{w}', '/v{y}-{z}/{m:int}', '/{k:int(2)}x{w}/{t}.{u}', '/{k:int(2)}x{w}/b'])
R4.find('/')
def rs4(path: str) -> int:
    """
    pre: len(path) <= 7
    pre: path.startswith('/')
    post: _ != 0
    """
    return compare(R4, A4, path)

R5, A5 = make_router(['/{n:int}/{p:path}', '/v{y}-{z}', '/a/{m:int}', '/{n:int}'])
R5.find('/')
def rs5(path: str) -> int:
    """
    pre: len(path) <= 7
    pre: path.startswith('/')
    post: _ != 0
    """
    return compare(R5, A5, path)

R6, A6 = make_router(['/v{y}-{z}/b', '/{n:int}/{p:path}', '/{x}/{p:path}', '/{n:int}/b'])
R6.find('/')
def rs6(path: str) -> int:
    """
    pre: len(path) <= 7
    pre: path.startswith('/')
    post: _ != 0
    """
    return compare(R6, A6, path)

R7, A7 = make_router(['/{x}/{t}.{u}', '/{k:int(2)}x{w}/b', '/a/{s}', '/{n:int}'])
R7.find('/')
def rs7(path: str) -> int:
    """
    pre: len(path) <= 7
    pre: path.startswith('/')
    post: _ != 0
    """
    return compare(R7, A7, path)

R8, A8 = make_router(['/v{y}-{z}/b', '/a', '/{k:int(2)}x{w}/{m:int}', '/{k:int(2)}x{w}/{s}'])
R8.find('/')
def rs8(path: str) -> int:
    """
    pre: len(path) <= 7
    pre: path.startswith('/')
    post: _ != 0
    """
    return compare(R8, A8, path)

R9, A9 = make_router(['/{x}/{t}.{u}', '/{x}/{m:int}', '/v{y}-{z}/{p:path}', '/{n:int}/{p:path}'])
R9.find('/')
def rs9(path: str) -> int:
    """
    pre: len(path) <= 7
    pre: path.startswith('/')
    post: _ != 0
    """
    return compare(R9, A9, path)

R10, A10 = make_router(['/{n:int}/{p:path}', '/a', '/{n:int}/{t}.{u}', '/{x}/{p:path}'])
R10.find('/')
def rs10(path: str) -> int:
    """
    pre: len(path) <= 7
    pre: path.startswith('/')
    post: _ != 0
    """
    return compare(R10, A10, path)

R11, A11 = make_router(['/a/{m:int}', '/{n:int}/{m:int}', '/{k:int(2)}x{w}/b', '/a/{t}.{u}'])
R11.find('/')
def rs11(path: str) -> int:
    """
    pre: len(path) <= 7
    pre: path.startswith('/')
    post: _ != 0
    """
    return compare(R11, A11, path)

R12, A12 = make_router(['/v{y}-{z}/{m:int}', '/{n:int}', '/{k:int(2)}x{w}/{m:int}', '/{x}/b'])
R12.find('/')
def rs12(path: str) -> int:
    """
    pre: len(path) <= 7
    pre: path.startswith('/')
    post: _ != 0
    """
    return compare(R12, A12, path)

R13, A13 = make_router(['/a', '/{n:int}/b', '/v{y}-{z}/{t}.{u}', '/{k:int(2)}x{w}/{m:int}'])
R13.find('/')
def rs13(path: str) -> int:
    """
    pre: len(path) <= 7
    pre: path.startswith('/')
    post: _ != 0
    """
    return compare(R13, A13, path)

R14, A14 = make_router(['/{x}/{t}.{u}', '/{n:int}/{s}', '/a/{s}', '/{x}/{m:int}'])
R14.find('/')
def rs14(path: str) -> int:
    """
    pre: len(path) <= 7
    pre: path.startswith('/')
    post: _ != 0
    """
    return compare(R14, A14, path)

R15, A15 = make_router(['/{n:int}/{m:int}', '/a', '/v{y}-{z}/{s}', '/a/{t}.{u}'])
R15.find('/')
def rs15(path: str) -> int:
    """
    pre: len(path) <= 7
    pre: path.startswith('/')
    post: _ != 0
    """
    return compare(R15, A15, path)
