import falcon, falcon.testing as ft

class Base(Exception): pass
class A(Base): pass
class B(Base): pass
class C(A, B): pass
class H(falcon.HTTPError): pass
class N(falcon.HTTPNotFound): pass
CLASSES = [Exception, Base, A, B, C, falcon.HTTPError, H, falcon.HTTPNotFound, N]

def mk_exc(i):
    cls = CLASSES[i]
    if cls in (falcon.HTTPError, H): return cls(falcon.HTTP_418)
    return cls()

def check(raised: int, site: int, r0: int, r1: int, r2: int, nreg: int) -> bool:
    """
    pre: 0 <= raised <= 8 and 0 <= site <= 2 and 0 <= nreg <= 3
    pre: 0 <= r0 <= 8 and 0 <= r1 <= 8 and 0 <= r2 <= 8
    post: _ == True
    """
    called = []
    def mk_handler(hid):
        def handler(req, resp, ex, params):
            called.append(hid)
            resp.status = falcon.HTTP_299; resp.text = 'h%d' % hid
        return handler
    class MW:
        def process_request(self, req, resp):
            if site == 0: resp.text = 'pre'; raise mk_exc(raised)
        def process_response(self, req, resp, resource, ok):
            if site == 2: resp.data = b'pre'; raise mk_exc(raised)
    class Res:
        def on_get(self, req, resp):
            resp.media = {'pre': 1}
            if site == 1: raise mk_exc(raised)
    app = falcon.App(middleware=[MW()])
    app.add_route('/x', Res())
    regs = [r0, r1, r2][:nreg]
    for hid, ci in enumerate(regs):
        app.add_error_handler(CLASSES[ci], mk_handler(hid))
    env = ft.create_environ(path='/x')
    out = []
    def sr(status, headers, exc_info=None): out.append(status)
    body = b''.join(app(env, sr))
    # oracle: nearest class in MRO with a registration; latest registration wins
    table = {}
    for hid, ci in enumerate(regs): table[CLASSES[ci]] = hid
    exp = None
    for cls in CLASSES[raised].__mro__:
        if cls in table: exp = table[cls]; break
        if cls in (Exception, falcon.HTTPError): exp = 'default'; break
    if exp == 'default' or exp is None:
        if called: return False
        if issubclass(CLASSES[raised], falcon.HTTPError):
            return out[0][:3] in ('418', '404') and b'pre' not in body
        return out[0][:3] == '500' and b'pre' not in body
    return called == [exp] and out[0][:3] == '299' and body == b'h%d' % exp
