import falcon, falcon.testing as ft
from falcon.request import Request, RequestOptions
from falcon.response import Response, ResponseOptions
NAMES = ['a', 'sid', 'b c', 'x;y', 'é']
SS = [None, 'Lax', 'strict', 'NONE', 'bogus']

def parse_set_cookie(line):
    parts = line.split('; ')
    name, _, value = parts[0].partition('=')
    attrs = {}
    for p in parts[1:]:
        k, _, v = p.partition('=')
        attrs[k.lower()] = v
    return name, value, attrs

def check(ni: int, value: str, max_age: int, has_max_age: bool, secure: int, http_only: bool, ss: int, part: bool, sdefault: bool) -> int:
    """
    pre: 0 <= ni <= 4 and 0 <= secure <= 2 and 0 <= ss <= 4
    pre: len(value) <= 2
    pre: -1 <= max_age <= 2
    post: _ != 0
    """
    opts = ResponseOptions(); opts.secure_cookies_by_default = sdefault
    resp = Response(options=opts)
    sec = [None, True, False][secure]
    try:
        resp.set_cookie(NAMES[ni], value, max_age=max_age if has_max_age else None, secure=sec, http_only=http_only, same_site=SS[ss], partitioned=part)
    except (KeyError, ValueError):
        return 2
    lines = [v for k, v in resp._wsgi_headers() if k == 'set-cookie']
    if len(lines) != 1: return 0
    name, val, attrs = parse_set_cookie(lines[0])
    if name != NAMES[ni]: return 0
    exp_secure = sdefault if sec is None else sec
    if ('secure' in attrs) != exp_secure: return 0
    if ('httponly' in attrs) != http_only: return 0
    if ('partitioned' in attrs) != part: return 0
    if has_max_age:
        if attrs.get('max-age') != str(max_age): return 0
    elif 'max-age' in attrs: return 0
    if SS[ss]:
        if attrs.get('samesite') != SS[ss].capitalize(): return 0
    elif 'samesite' in attrs: return 0
    # echo back
    env = ft.create_environ(path='/x', headers={'Cookie': name + '=' + val})
    req = Request(env, options=RequestOptions())
    if req.get_cookie_values(NAMES[ni]) != [value]: return 0
    return 1
