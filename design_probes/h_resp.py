import http
import falcon, falcon.testing as ft

STATUSES = [200, 204, 304, 404, 100, '200 OK', '204 No Content', http.HTTPStatus.NOT_MODIFIED, 599, 101]
METHODS = ['GET', 'HEAD', 'POST']

class Stream:
    def __init__(self, chunks, fail_at):
        self.chunks = list(chunks); self.i = 0; self.closed = 0; self.fail_at = fail_at
    def __iter__(self): return self
    def __next__(self):
        if self.fail_at == self.i + 1: self.i += 1; raise RuntimeError('stream failed')
        if self.i >= len(self.chunks): raise StopIteration
        c = self.chunks[self.i]; self.i += 1; return c
    def close(self): self.closed += 1

class FileLike:
    def __init__(self, data, fail_at): self.d = data; self.p = 0; self.closed = 0; self.n = 0; self.fail_at = fail_at
    def read(self, size=-1):
        self.n += 1
        if self.fail_at == self.n: raise RuntimeError('read failed')
        if size is None or size < 0: size = len(self.d)
        r = self.d[self.p:self.p+size]; self.p += len(r); return r
    def close(self): self.closed += 1

def run(si, mi, has_text, has_data, has_media, stream_kind, set_cl, set_ct, text, data, fail_at, fw):
    box = {}
    class Res:
        def _do(self, req, resp):
            resp.status = STATUSES[si]
            if has_text: resp.text = text
            if has_data: resp.data = data
            if has_media: resp.media = {'k': 1}
            if stream_kind == 1: box['s'] = resp.stream = Stream([b'ab', b'c'], fail_at)
            elif stream_kind == 2: box['s'] = resp.stream = FileLike(b'abc', fail_at)
            if set_cl: resp.content_length = 7
            if set_ct: resp.content_type = 'x/y'
        on_get = on_head = on_post = _do
    app = falcon.App(); app.add_route('/x', Res())
    env = ft.create_environ(path='/x', method=METHODS[mi])
    if fw:
        class FW:
            def __init__(self, f, bs): self.f = f; self.bs = bs
            def __iter__(self): return self
            def __next__(self):
                d = self.f.read(self.bs)
                if not d: raise StopIteration
                return d
            def close(self):
                if hasattr(self.f, 'close'): self.f.close()
        env['wsgi.file_wrapper'] = FW
    calls = []
    def sr(status, headers, exc_info=None): calls.append((status, headers))
    it = app(env, sr)
    body = []; failed = False
    try:
        for chunk in it:
            if not isinstance(chunk, bytes): return 'nonbytes'
            body.append(chunk)
    except RuntimeError:
        failed = True
    finally:
        if hasattr(it, 'close'): it.close()
    return calls, b''.join(body), failed, box.get('s'), it

def check(si:int, mi:int, has_text:bool, has_data:bool, has_media:bool, stream_kind:int, set_cl:bool, set_ct:bool, text:str, data:bytes, fail_at:int, fw:bool) -> bool:
    """
    pre: 0 <= si <= 9 and 0 <= mi <= 2 and 0 <= stream_kind <= 2 and 0 <= fail_at <= 3
    pre: len(text) <= 2 and len(data) <= 2
    post: _ == True
    """
    r = run(si, mi, has_text, has_data, has_media, stream_kind, set_cl, set_ct, text, data, fail_at, fw)
    if r == 'nonbytes': return False
    calls, body, failed, s, it = r
    if len(calls) != 1: return False
    status, headers = calls[0]
    if not (isinstance(status, str) and len(status) >= 4 and status[:3].isdigit() and status[3] == ' '): return False
    code = int(status[:3])
    hd = {}
    for k, v in headers:
        if type(k) is not str or type(v) is not str: return False
        if k != 'set-cookie' and k in hd: return False
        hd[k] = v
    bodiless = METHODS[mi] == 'HEAD' or code in (100, 101, 204, 304)
    if bodiless and body: return False
    # precedence
    if has_text: exp = text.encode()
    elif has_data: exp = data
    elif has_media: exp = b'{"k": 1}'
    elif stream_kind: exp = None
    else: exp = b''
    if not bodiless and exp is not None:
        if body != exp: return False
        if hd.get('content-length') != str(len(exp)): return False
    if code in (204, 304):
        if 'content-type' in hd and not set_ct and not (has_media and not has_text and not has_data): return False
    elif 'content-type' not in hd: return False
    if s is not None and exp is None and not bodiless:
        if s.closed != 1: return False
    return True
