import sys
sys.modules['falcon.cyutil'] = None
import falcon
from falcon.media.multipart import MultipartForm, MultipartParseOptions, MultipartParseError
import falcon.util.reader as R
assert falcon.util.BufferedReader is R.BufferedReader

class Src:
    def __init__(self, data, cut): self.data = data; self.pos = 0; self.cut = cut
    def read(self, size=-1):
        if size is None or size < 0: size = len(self.data) - self.pos
        if self.pos < self.cut < self.pos + size: size = self.cut - self.pos   # one symbolic short read
        r = self.data[self.pos:self.pos+size]; self.pos += len(r); return r

def encode(parts, boundary, preamble=b'', epilogue=b'\r\n'):
    out = preamble
    for name, content in parts:
        out += b'--' + boundary + b'\r\n'
        out += b'Content-Disposition: form-data; name="' + name + b'"\r\n\r\n'
        out += content + b'\r\n'
    out += b'--' + boundary + b'--' + epilogue
    return out

def one_part(c0: bytes, k: int, cut: int, max_buf: int, max_count: int) -> int:
    """
    pre: len(c0) == 2
    pre: all(b in (45, 13, 10, 98, 120) for b in c0)
    pre: -1 <= k <= 3
    pre: 0 <= cut <= 70
    pre: 0 <= max_buf <= 3 and 0 <= max_count <= 2
    post: _ != 0
    """
    boundary = b'b'
    if b'\r\n--b' in (b'\r\n' + c0 + b'\r\n'): return 2
    body = encode([(b'a', c0)], boundary)
    opts = MultipartParseOptions()
    opts.max_body_part_buffer_size = max_buf
    opts.max_body_part_count = max_count
    form = MultipartForm(Src(body, cut), boundary, len(body), opts)
    form._stream._chunk_size = 8
    got = []
    try:
        for part in form:
            if k < 0: got.append((part.name, part.get_data()))
            else: got.append((part.name, part.stream.read(k)))
    except MultipartParseError:
        # allowed exactly when a configured limit is exceeded
        if k < 0 and len(c0) > max_buf: return 1
        if 0 < max_count < 1: return 1
        return 0
    if k < 0 and len(c0) > max_buf: return 0        # limit must have triggered
    exp = c0 if k < 0 else c0[:k]
    return 1 if got == [('a', exp)] else 0
