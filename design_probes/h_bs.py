from falcon.stream import BoundedStream

class FakeInput:
    """wsgi.input holding the body followed by bytes of a next request."""
    def __init__(self, data): self.d = data; self.p = 0; self.asked = 0; self.unbounded = False
    def read(self, size=-1):
        if size is None or size < 0: self.unbounded = True; size = len(self.d) - self.p
        r = self.d[self.p:self.p+size]; self.p += len(r); return r
    def readline(self, limit=-1):
        i = self.d.find(b'\n', self.p)
        end = len(self.d) if i < 0 else i + 1
        if limit is not None and limit >= 0: end = min(end, self.p + limit)
        else: self.unbounded = True
        r = self.d[self.p:end]; self.p = end; return r
    def readlines(self, hint=-1):
        out = []; total = 0
        while True:
            line = self.readline()
            if not line: break
            out.append(line); total += len(line)
            if hint is not None and hint > 0 and total >= hint: break
        return out
    def __next__(self):
        line = self.readline()
        if not line: raise StopIteration
        return line

def scenario(body, extra, cl, ops):
    raw = FakeInput(body + extra)
    s = BoundedStream(raw, cl)
    expect = (body + extra)[:cl]
    got = b''
    for op, n in ops:
        if op == 0: r = s.read(n); parts = [r]; sized = n is not None and n >= 0
        elif op == 1: r = s.readline(n); parts = [r]; sized = n is not None and n >= 0
        elif op == 2: parts = s.readlines(n); sized = False
        elif op == 3:
            try: parts = [next(s)]
            except StopIteration: parts = []
            sized = False
        else: s.exhaust(); parts = None; sized = False
        if parts is None:
            if raw.p > cl: return False
            got = expect[:raw.p]
            continue
        for r in parts:
            if sized and len(r) > n: return False
            got += r
        if not expect.startswith(got): return False       # prefix, no loss/reorder
        if raw.p > cl: return False                       # never consumed beyond CL
        if s.eof and got != expect: return False          # eof => everything delivered
    return True

def s_00(body: bytes, cl: int, n0: int, n1: int) -> bool:
    """
    pre: len(body) == 4
    pre: all(b in (10, 97) for b in body)
    pre: 0 <= cl <= 6
    pre: -1 <= n0 <= 6 and -1 <= n1 <= 6
    post: _ == True
    """
    return scenario(body, b'NX\nT', cl, ((0, n0), (0, n1)))

def s_01(body: bytes, cl: int, n0: int, n1: int) -> bool:
    """
    pre: len(body) == 4
    pre: all(b in (10, 97) for b in body)
    pre: 0 <= cl <= 6
    pre: -1 <= n0 <= 6 and -1 <= n1 <= 6
    post: _ == True
    """
    return scenario(body, b'NX\nT', cl, ((0, n0), (1, n1)))

def s_02(body: bytes, cl: int, n0: int, n1: int) -> bool:
    """
    pre: len(body) == 4
    pre: all(b in (10, 97) for b in body)
    pre: 0 <= cl <= 6
    pre: -1 <= n0 <= 6 and -1 <= n1 <= 6
    post: _ == True
    """
    return scenario(body, b'NX\nT', cl, ((0, n0), (2, n1)))

def s_03(body: bytes, cl: int, n0: int, n1: int) -> bool:
    """
    pre: len(body) == 4
    pre: all(b in (10, 97) for b in body)
    pre: 0 <= cl <= 6
    pre: -1 <= n0 <= 6 and -1 <= n1 <= 6
    post: _ == True
    """
    return scenario(body, b'NX\nT', cl, ((0, n0), (3, n1)))

def s_04(body: bytes, cl: int, n0: int, n1: int) -> bool:
    """
    pre: len(body) == 4
    pre: all(b in (10, 97) for b in body)
    pre: 0 <= cl <= 6
    pre: -1 <= n0 <= 6 and -1 <= n1 <= 6
    post: _ == True
    """
    return scenario(body, b'NX\nT', cl, ((0, n0), (4, n1)))

def s_10(body: bytes, cl: int, n0: int, n1: int) -> bool:
    """
    pre: len(body) == 4
    pre: all(b in (10, 97) for b in body)
    pre: 0 <= cl <= 6
    pre: -1 <= n0 <= 6 and -1 <= n1 <= 6
    post: _ == True
    """
    return scenario(body, b'NX\nT', cl, ((1, n0), (0, n1)))

def s_11(body: bytes, cl: int, n0: int, n1: int) -> bool:
    """
    pre: len(body) == 4
    pre: all(b in (10, 97) for b in body)
    pre: 0 <= cl <= 6
    pre: -1 <= n0 <= 6 and -1 <= n1 <= 6
    post: _ == True
    """
    return scenario(body, b'NX\nT', cl, ((1, n0), (1, n1)))

def s_12(body: bytes, cl: int, n0: int, n1: int) -> bool:
    """
    pre: len(body) == 4
    pre: all(b in (10, 97) for b in body)
    pre: 0 <= cl <= 6
    pre: -1 <= n0 <= 6 and -1 <= n1 <= 6
    post: _ == True
    """
    return scenario(body, b'NX\nT', cl, ((1, n0), (2, n1)))

def s_13(body: bytes, cl: int, n0: int, n1: int) -> bool:
    """
    pre: len(body) == 4
    pre: all(b in (10, 97) for b in body)
    pre: 0 <= cl <= 6
    pre: -1 <= n0 <= 6 and -1 <= n1 <= 6
    post: _ == True
    """
    return scenario(body, b'NX\nT', cl, ((1, n0), (3, n1)))

def s_14(body: bytes, cl: int, n0: int, n1: int) -> bool:
    """
    pre: len(body) == 4
    pre: all(b in (10, 97) for b in body)
    pre: 0 <= cl <= 6
    pre: -1 <= n0 <= 6 and -1 <= n1 <= 6
    post: _ == True
    """
    return scenario(body, b'NX\nT', cl, ((1, n0), (4, n1)))

def s_20(body: bytes, cl: int, n0: int, n1: int) -> bool:
    """
    pre: len(body) == 4
    pre: all(b in (10, 97) for b in body)
    pre: 0 <= cl <= 6
    pre: -1 <= n0 <= 6 and -1 <= n1 <= 6
    post: _ == True
    """
    return scenario(body, b'NX\nT', cl, ((2, n0), (0, n1)))

def s_21(body: bytes, cl: int, n0: int, n1: int) -> bool:
    """
    pre: len(body) == 4
    pre: all(b in (10, 97) for b in body)
    pre: 0 <= cl <= 6
    pre: -1 <= n0 <= 6 and -1 <= n1 <= 6
    post: _ == True
    """
    return scenario(body, b'NX\nT', cl, ((2, n0), (1, n1)))

def s_22(body: bytes, cl: int, n0: int, n1: int) -> bool:
    """
    pre: len(body) == 4
    pre: all(b in (10, 97) for b in body)
    pre: 0 <= cl <= 6
    pre: -1 <= n0 <= 6 and -1 <= n1 <= 6
    post: _ == True
    """
    return scenario(body, b'NX\nT', cl, ((2, n0), (2, n1)))

def s_23(body: bytes, cl: int, n0: int, n1: int) -> bool:
    """
    pre: len(body) == 4
    pre: all(b in (10, 97) for b in body)
    pre: 0 <= cl <= 6
    pre: -1 <= n0 <= 6 and -1 <= n1 <= 6
    post: _ == True
    """
    return scenario(body, b'NX\nT', cl, ((2, n0), (3, n1)))

def s_24(body: bytes, cl: int, n0: int, n1: int) -> bool:
    """
    pre: len(body) == 4
    pre: all(b in (10, 97) for b in body)
    pre: 0 <= cl <= 6
    pre: -1 <= n0 <= 6 and -1 <= n1 <= 6
    post: _ == True
    """
    return scenario(body, b'NX\nT', cl, ((2, n0), (4, n1)))

def s_30(body: bytes, cl: int, n0: int, n1: int) -> bool:
    """
    pre: len(body) == 4
    pre: all(b in (10, 97) for b in body)
    pre: 0 <= cl <= 6
    pre: -1 <= n0 <= 6 and -1 <= n1 <= 6
    post: _ == True
    """
    return scenario(body, b'NX\nT', cl, ((3, n0), (0, n1)))

def s_31(body: bytes, cl: int, n0: int, n1: int) -> bool:
    """
    pre: len(body) == 4
    pre: all(b in (10, 97) for b in body)
    pre: 0 <= cl <= 6
    pre: -1 <= n0 <= 6 and -1 <= n1 <= 6
    post: _ == True
    """
    return scenario(body, b'NX\nT', cl, ((3, n0), (1, n1)))

def s_32(body: bytes, cl: int, n0: int, n1: int) -> bool:
    """
    pre: len(body) == 4
    pre: all(b in (10, 97) for b in body)
    pre: 0 <= cl <= 6
    pre: -1 <= n0 <= 6 and -1 <= n1 <= 6
    post: _ == True
    """
    return scenario(body, b'NX\nT', cl, ((3, n0), (2, n1)))

def s_33(body: bytes, cl: int, n0: int, n1: int) -> bool:
    """
    pre: len(body) == 4
    pre: all(b in (10, 97) for b in body)
    pre: 0 <= cl <= 6
    pre: -1 <= n0 <= 6 and -1 <= n1 <= 6
    post: _ == True
    """
    return scenario(body, b'NX\nT', cl, ((3, n0), (3, n1)))

def s_34(body: bytes, cl: int, n0: int, n1: int) -> bool:
    """
    pre: len(body) == 4
    pre: all(b in (10, 97) for b in body)
    pre: 0 <= cl <= 6
    pre: -1 <= n0 <= 6 and -1 <= n1 <= 6
    post: _ == True
    """
    return scenario(body, b'NX\nT', cl, ((3, n0), (4, n1)))

def s_40(body: bytes, cl: int, n0: int, n1: int) -> bool:
    """
    pre: len(body) == 4
    pre: all(b in (10, 97) for b in body)
    pre: 0 <= cl <= 6
    pre: -1 <= n0 <= 6 and -1 <= n1 <= 6
    post: _ == True
    """
    return scenario(body, b'NX\nT', cl, ((4, n0), (0, n1)))

def s_41(body: bytes, cl: int, n0: int, n1: int) -> bool:
    """
    pre: len(body) == 4
    pre: all(b in (10, 97) for b in body)
    pre: 0 <= cl <= 6
    pre: -1 <= n0 <= 6 and -1 <= n1 <= 6
    post: _ == True
    """
    return scenario(body, b'NX\nT', cl, ((4, n0), (1, n1)))

def s_42(body: bytes, cl: int, n0: int, n1: int) -> bool:
    """
    pre: len(body) == 4
    pre: all(b in (10, 97) for b in body)
    pre: 0 <= cl <= 6
    pre: -1 <= n0 <= 6 and -1 <= n1 <= 6
    post: _ == True
    """
    return scenario(body, b'NX\nT', cl, ((4, n0), (2, n1)))

def s_43(body: bytes, cl: int, n0: int, n1: int) -> bool:
    """
    pre: len(body) == 4
    pre: all(b in (10, 97) for b in body)
    pre: 0 <= cl <= 6
    pre: -1 <= n0 <= 6 and -1 <= n1 <= 6
    post: _ == True
    """
    return scenario(body, b'NX\nT', cl, ((4, n0), (3, n1)))

def s_44(body: bytes, cl: int, n0: int, n1: int) -> bool:
    """
    pre: len(body) == 4
    pre: all(b in (10, 97) for b in body)
    pre: 0 <= cl <= 6
    pre: -1 <= n0 <= 6 and -1 <= n1 <= 6
    post: _ == True
    """
    return scenario(body, b'NX\nT', cl, ((4, n0), (4, n1)))
