import sys
sys.modules['falcon.cyutil'] = None
from falcon.util.reader import BufferedReader
from falcon.errors import DelimiterError
from typing import List

class Src:
    def __init__(self, data, shorts):
        self.data = data; self.pos = 0; self.shorts = shorts; self.i = 0; self.max_req = 0
    def read(self, size):
        assert size > 0
        k = size
        if self.i < len(self.shorts):
            s = self.shorts[self.i]; self.i += 1
            if 0 < s < size: k = s
        r = self.data[self.pos:self.pos+k]; self.pos += len(r)
        return r

class Model:
    def __init__(self, data): self.d = data; self.p = 0
    def read(self, size):
        if size is None or size < 0: size = len(self.d) - self.p
        r = self.d[self.p:self.p+size]; self.p += len(r); return r
    def peek(self, size, chunk):
        if size < 0 or size > chunk: size = chunk
        return self.d[self.p:self.p+size]
    def read_until(self, delim, size, consume):
        rem = len(self.d) - self.p
        if size < 0 or size > rem: size = rem
        i = self.d.find(delim, self.p)
        end = self.p + size
        if i >= 0 and i < end: end = i
        r = self.d[self.p:end]; self.p = end
        if consume:
            if self.d[self.p:self.p+len(delim)] != delim: raise DelimiterError()
            self.p += len(delim)
        return r

def check(data: bytes, chunk: int, s0: int, s1: int, op0: int, n0: int, op1: int, n1: int) -> bool:
    """
    pre: len(data) <= 4
    pre: all(b in (45, 120) for b in data)
    pre: 1 <= chunk <= 3
    pre: 0 <= s0 <= 2 and 0 <= s1 <= 2
    pre: 0 <= op0 <= 3 and 0 <= op1 <= 3
    pre: -1 <= n0 <= 5 and -1 <= n1 <= 5
    post: _ == True
    """
    src = Src(data, [s0, s1])
    r = BufferedReader(src.read, len(data), chunk)
    m = Model(data)
    for op, n in ((op0, n0), (op1, n1)):
        e1 = e2 = None
        a = b = None
        try:
            if op == 0: a = r.read(n)
            elif op == 1: a = r.peek(n)
            elif op == 2: a = r.read_until(b'-', n, False)
            else: a = r.read_until(b'-', n, True)
        except DelimiterError: e1 = True
        try:
            if op == 0: b = m.read(n)
            elif op == 1: b = m.peek(n, chunk)
            elif op == 2: b = m.read_until(b'-', n, False)
            else: b = m.read_until(b'-', n, True)
        except DelimiterError: e2 = True
        if e1 != e2: return False
        if e1: return True
        if a != b: return False
    return True

def check_small(data: bytes, n0: int, n1: int) -> bool:
    """
    pre: len(data) <= 4
    pre: all(b in (45, 120) for b in data)
    pre: -1 <= n0 <= 5 and -1 <= n1 <= 5
    post: _ == True
    """
    return check(data, 2, 0, 0, 2, n0, 0, n1)

def check_small3(data: bytes, n0: int, n1: int) -> bool:
    """
    pre: len(data) <= 4
    pre: all(b in (45, 120) for b in data)
    pre: -1 <= n0 <= 5 and -1 <= n1 <= 5
    post: _ == True
    """
    return check(data, 2, 0, 0, 3, n0, 2, n1)
