import falcon, falcon.testing as ft
from falcon.request import Request, RequestOptions
from falcon.response import Response, ResponseOptions
ORIG = ['https://a', 'https://b', 'https://A']
def cfg_origins(k):   # 0:'*' 1:{a} 2:{a,b}
    return '*' if k == 0 else (ORIG[0] if k == 1 else [ORIG[0], ORIG[1]])
def cfg_creds(k):     # 0:None 1:'*' 2:{a} 3:{b}
    return None if k == 0 else ('*' if k == 1 else (ORIG[0] if k == 2 else [ORIG[1]]))
def check(ao:int, ac:int, expose:bool, oi:int, is_options:bool, acrm:bool, acrh:bool, allow:bool, preset:bool, ok:bool) -> bool:
    """
    pre: 0 <= ao <= 2 and 0 <= ac <= 3 and -1 <= oi <= 2
    post: _ == True
    """
    mw = falcon.CORSMiddleware(allow_origins=cfg_origins(ao), allow_credentials=cfg_creds(ac), expose_headers='X-E' if expose else None)
    headers = {}
    if oi >= 0: headers['Origin'] = ORIG[oi]
    if acrm: headers['Access-Control-Request-Method'] = 'PUT'
    if acrh: headers['Access-Control-Request-Headers'] = 'X-H'
    env = ft.create_environ(path='/x', method='OPTIONS' if is_options else 'GET', headers=headers)
    req = Request(env, options=RequestOptions()); resp = Response(options=ResponseOptions())
    if allow: resp.set_header('Allow', 'GET, PUT')
    if preset: resp.set_header('Access-Control-Allow-Origin', 'https://preset')
    before = dict(resp.headers)
    mw.process_response(req, resp, None, ok)
    h = resp.headers
    cors = {k: v for k, v in h.items() if k.startswith('access-control-')}
    origin = ORIG[oi] if oi >= 0 else None
    allowed_set = None if ao == 0 else ({ORIG[0]} if ao == 1 else {ORIG[0], ORIG[1]})
    origin_ok = origin is not None and (allowed_set is None or origin in allowed_set)
    if not origin_ok:
        return dict(h) == before
    cred_set = set() if ac == 0 else (None if ac == 1 else ({ORIG[0]} if ac == 2 else {ORIG[1]}))
    cred_ok = cred_set is None or origin in cred_set
    preflight = ok and is_options and acrm
    exp = {}
    if preset: exp['access-control-allow-origin'] = 'https://preset'
    else:
        exp['access-control-allow-origin'] = origin if (cred_ok or ao != 0) else '*'
        if cred_ok: exp['access-control-allow-credentials'] = 'true'
    if expose: exp['access-control-expose-headers'] = 'X-E'
    if preflight:
        if allow:
            exp['access-control-allow-methods'] = 'GET, PUT'
            exp['access-control-allow-headers'] = 'X-H' if acrh else '*'
            exp['access-control-max-age'] = '86400'
        else:
            exp = {}          # all grants withdrawn
        if 'allow' in h: return False
    elif allow and h.get('allow') != 'GET, PUT': return False
    return cors == exp
