import re
import falcon, falcon.testing as ft
from falcon.routing import static as S
METHODS = ['GET', 'POST', 'DELETE', 'OPTIONS', 'PATCH', 'HEAD']

def build(hist, mask, sbs, log):
    class Res: pass
    def mk(name):
        def responder(self, req, resp, **kw): log.append(('route', name, kw))
        return responder
    for bit, m in enumerate(['get', 'post', 'delete']):
        if mask & (1 << bit):
            setattr(Res, 'on_' + m, mk(m))
            setattr(Res, 'on_' + m + '_item', mk(m + '_item'))
    app = falcon.App(sink_before_static_route=sbs)
    res = Res()
    for i, h in enumerate(hist):
        if h == 0 and mask & 7: app.add_route('/r', res)
        elif h == 1 and mask & 7: app.add_route('/r/{id}', res, suffix='item')
        elif h == 2: app.add_sink(lambda req, resp, _i=i, **kw: log.append(('sink', _i, kw)), '/')
        elif h == 3: app.add_sink(lambda req, resp, _i=i, **kw: log.append(('sink', _i, kw)), '/r')
        elif h == 4: app.add_sink(lambda req, resp, _i=i, **kw: log.append(('sink', _i, kw)), '/(?P<a>x+)/')
        elif h == 5: app.add_static_route('/s', '/srv/www')
        elif h == 6: app.add_static_route('/r', '/srv/www')
    return app

def oracle(hist, mask, sbs, method, path):
    impl = [m for b, m in enumerate(['GET', 'POST', 'DELETE']) if mask & (1 << b)]
    routes = {}
    for h in hist:
        if h == 0 and impl: routes['r'] = True
        if h == 1 and impl: routes['ri'] = True
    segs = path.lstrip('/').split('/')
    hit = None
    if 'r' in routes and segs == ['r']: hit = ('', {})
    if 'ri' in routes and len(segs) == 2 and segs[0] == 'r': hit = ('_item', {'id': segs[1]})
    if hit:
        if method in impl: return ('route', method.lower() + hit[0], hit[1])
        if method == 'OPTIONS': return ('options', sorted(impl))
        return ('405', sorted(impl + ['OPTIONS']))
    sinks = []; statics = []
    for i, h in enumerate(hist):
        if h in (2, 3, 4): sinks.insert(0, (i, h))
        if h in (5, 6): statics.insert(0, (i, h))
    order = sinks + statics if sbs else statics + sinks
    for i, h in order:
        if h == 2 and path.startswith('/'): return ('sink', i, {})
        if h == 3 and path.startswith('/r'): return ('sink', i, {})
        if h == 4:
            m = re.match('/(?P<a>x+)/', path)
            if m: return ('sink', i, m.groupdict())
        if h == 5 and path.startswith('/s/'): return ('static',)
        if h == 6 and path.startswith('/r/'): return ('static',)
    return ('404',)

def check(h0:int, h1:int, h2:int, mask:int, sbs:bool, mi:int, path:str) -> bool:
    """
    pre: 0 <= h0 <= 6 and 0 <= h1 <= 6 and 0 <= h2 <= 6 and 0 <= mask <= 7 and 0 <= mi <= 5
    pre: len(path) <= 5 and path.startswith('/') and path.isascii()
    post: _ == True
    """
    log = []
    hist = [h0, h1, h2]
    orig = S._open_file
    def fake_open(p): log.append(('static',)); raise falcon.HTTPNotFound()
    S._open_file = fake_open
    try:
        app = build(hist, mask, sbs, log)
        env = ft.create_environ(path='/x', method=METHODS[mi])
        env['PATH_INFO'] = path
        out = []
        def sr(status, headers, exc_info=None): out.append((status, dict(headers)))
        b''.join(app(env, sr))
    finally:
        S._open_file = orig
    exp = oracle(hist, mask, sbs, METHODS[mi], path)
    status, hd = out[0]
    if exp[0] == 'route': return log == [exp]
    if exp[0] == 'sink': return log == [exp]
    if exp[0] == 'static': return log[:1] == [('static',)] or (status[:3] in ('404', '200') and not [l for l in log if l[0] != 'static'])
    if exp[0] == '404': return not log and status[:3] == '404'
    if exp[0] == '405': return not log and status[:3] == '405' and sorted(hd.get('allow', '').split(', ')) == exp[1]
    if exp[0] == 'options': return not log and status[:3] == '200' and sorted(hd.get('allow', '').split(', ')) == exp[1]
    return False
