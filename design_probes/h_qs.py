import sys
sys.modules['falcon.cyutil'] = None
import falcon.util.uri as U
from typing import Dict, List, Union

_HEXB = b'0123456789abcdefABCDEF'
def ref_decode(s: str) -> str:
    b = s.encode('utf-8'); out = []; i = 0; n = len(b)
    while i < n:
        c = b[i]
        if c == 0x25 and i + 2 < n and b[i+1] in _HEXB and b[i+2] in _HEXB:
            out.append(int(b[i+1:i+3], 16)); i += 3
        elif c == 0x2b: out.append(0x20); i += 1
        else: out.append(c); i += 1
    return bytes(out).decode('utf-8', 'replace')

def ref_parse(qs: str, keep_blank: bool, csv: bool):
    res = {}
    for field in qs.split('&'):
        i = field.find('=')
        if i < 0: k, v = field, ''
        else: k, v = field[:i], field[i+1:]
        if v == '' and (not keep_blank or k == ''): continue
        k = ref_decode(k)
        if csv and ',' in v:
            vals = [ref_decode(e) for e in v.split(',') if (keep_blank or e)]
        else:
            vals = [ref_decode(v)]
        if k in res: res[k].extend(vals)
        else: res[k] = vals if (len(vals) != 1 or (csv and ',' in v)) else vals[0] if False else vals
        
    return res

def norm(d):
    return {k: (v if isinstance(v, list) else [v]) for k, v in d.items()}

def check(qs: str, keep_blank: bool, csv: bool) -> bool:
    """
    pre: len(qs) <= 4
    pre: all(c in '&=,+%1aG' for c in qs)
    post: _ == True
    """
    return norm(U.parse_query_string(qs, keep_blank, csv)) == ref_parse(qs, keep_blank, csv)
