import falcon, falcon.testing as ft

class AppErr(Exception): pass      # has a handler
class Unhandled(BaseException): pass

# action codes: 0 return, 1 complete, 2 raise HTTPError, 3 raise AppErr (handled by custom handler)
def act(a, resp):
    if a == 1: resp.complete = True
    elif a == 2: raise falcon.HTTPBadRequest()
    elif a == 3: raise AppErr()

def build(A, masks, hooks, independent, trace):
    def mk_mw(i):
        ns = {}
        if masks[i] & 1:
            def process_request(self, req, resp): trace.append(('req', i)); act(A[i][0], resp)
            ns['process_request'] = process_request
        if masks[i] & 2:
            def process_resource(self, req, resp, resource, params): trace.append(('rsrc', i)); act(A[i][1], resp)
            ns['process_resource'] = process_resource
        if masks[i] & 4:
            def process_response(self, req, resp, resource, ok): trace.append(('resp', i, resource is not None, ok)); act(A[i][2] if A[i][2] != 1 else 0, resp)
            ns['process_response'] = process_response
        return type('MW%d' % i, (), ns)()
    def before(req, resp, resource, params): trace.append(('before',)); act(hooks[0], resp)
    def after(req, resp, resource): trace.append(('after',)); act(hooks[1], resp)
    class Res:
        @falcon.before(before)
        @falcon.after(after)
        def on_get(self, req, resp): trace.append(('responder',)); act(hooks[2], resp)
    def handler(req, resp, ex, params): trace.append(('handler',)); resp.status = 299
    app = falcon.App(middleware=[mk_mw(0), mk_mw(1)], independent_middleware=independent)
    app.add_error_handler(AppErr, handler)
    app.add_route('/x', Res())
    return app

def oracle(A, masks, hooks, independent, routed):
    t = []; n = 2
    failed = False; complete = False
    queued = []          # dependent mode response stack (bottom-up order built later)
    # request phase
    stop = False
    for i in range(n):
        has_req = bool(masks[i] & 1); has_resp = bool(masks[i] & 4)
        if independent:
            if has_req and not stop:
                t.append(('req', i)); a = A[i][0]
                if a >= 2:
                    failed = True; stop = True
                    if a == 3: t.append(('handler',))
                elif a == 1: complete = True; stop = True
        else:
            if not stop:
                if has_req and not complete:
                    t.append(('req', i)); a = A[i][0]
                    if a >= 2:
                        failed = True; stop = True
                        if a == 3: t.append(('handler',))
                        continue
                    elif a == 1: complete = True
                if has_resp: queued.insert(0, i)
    resource = False
    if not failed and not complete:
        if routed:
            resource = True
            for i in range(n):
                if masks[i] & 2:
                    t.append(('rsrc', i)); a = A[i][1]
                    if a >= 2:
                        failed = True
                        if a == 3: t.append(('handler',))
                        break
                    if a == 1: complete = True; break
            if not failed and not complete:
                # before hook -> responder -> after hook
                t.append(('before',)); a = hooks[0]
                if a >= 2: failed = True
                else:
                    t.append(('responder',)); a = hooks[2]
                    if a >= 2: failed = True
                    else:
                        t.append(('after',)); a = hooks[1]
                        if a >= 2: failed = True
                if failed and a == 3: t.append(('handler',))
        else:
            failed = True    # 404 raised by default responder
    ok = not failed
    order = [i for i in reversed(range(n)) if masks[i] & 4] if independent else queued
    for i in order:
        t.append(('resp', i, resource, ok)); a = A[i][2]
        if a == 1: a = 0
        if a >= 2:
            ok = False
            if a == 3: t.append(('handler',))
    return t

def check(a00:int,a01:int,a02:int,a10:int,a11:int,a12:int,m0:int,m1:int,h0:int,h1:int,h2:int,independent:bool,routed:bool) -> int:
    """
    pre: 0<=a00<=3 and 0<=a01<=3 and 0<=a02<=3 and 0<=a10<=3 and 0<=a11<=3 and 0<=a12<=3
    pre: 1<=m0<=7 and 1<=m1<=7 and 0<=h0<=3 and 0<=h1<=3 and 0<=h2<=3
    post: _ != 0
    """
    A = [[a00,a01,a02],[a10,a11,a12]]; masks = [m0, m1]; hooks = [h0, h1, h2]
    trace = []
    app = build(A, masks, hooks, independent, trace)
    env = ft.create_environ(path='/x' if routed else '/nope')
    out = []
    def sr(status, headers, exc_info=None): out.append(status)
    b''.join(app(env, sr))
    exp = oracle(A, masks, hooks, independent, routed)
    return 1 if trace == exp else 0
