import ast, inspect, textwrap, types
from crosshair.pure_importer import prefer_pure_python_imports
with prefer_pure_python_imports():
    import falcon.routing.compiled as C

NAMES = ['find', '_compile_and_find', '_compile', '_generate_ast', '_generate_conversion_ast']

class ModelLock:
    def __init__(self): self.held = False

def _acquire(lock):
    while lock.held:
        yield 'blocked'
    lock.held = True

def _gcall(f, *a, **k):
    r = f(*a, **k)
    if inspect.isgenerator(r):
        r = yield from r
    return r

class T(ast.NodeTransformer):
    def visit_FunctionDef(self, node):
        if node.name not in NAMES:
            return node  # nested helper functions / lambdas stay atomic
        self.generic_visit(node)
        node.body = self._instr(node.body)
        node.decorator_list = []
        node.returns = None
        for a in node.args.args + node.args.kwonlyargs: a.annotation = None
        return node
    def _instr(self, body):
        out = []
        for st in body:
            out.append(ast.Expr(ast.Yield(ast.Constant('pp'))))
            for fld in ('body', 'orelse', 'finalbody'):
                if hasattr(st, fld) and isinstance(getattr(st, fld), list) and not isinstance(st, (ast.FunctionDef, ast.ClassDef)):
                    setattr(st, fld, self._instr(getattr(st, fld)) if getattr(st, fld) else [])
            if isinstance(st, ast.Try):
                for h in st.handlers: h.body = self._instr(h.body)
            if isinstance(st, ast.With) and any(isinstance(i.context_expr, ast.Attribute) and i.context_expr.attr == '_compile_lock' for i in st.items):
                acq = ast.Expr(ast.YieldFrom(ast.Call(ast.Name('_acquire', ast.Load()), [st.items[0].context_expr], [])))
                rel = ast.parse('self._compile_lock.held = False').body[0]
                st = ast.Try(body=st.body, handlers=[], orelse=[], finalbody=[rel])
                out.append(acq)
            out.append(st)
        return out
    def visit_Call(self, node):
        self.generic_visit(node)
        f = node.func
        if isinstance(f, ast.Attribute) and isinstance(f.value, ast.Name) and f.value.id == 'self' and f.attr in NAMES + ['_find']:
            return ast.YieldFrom(ast.Call(ast.Name('_gcall', ast.Load()), [f] + node.args, node.keywords))
        return node

def build():
    ns = dict(C.__dict__); ns.update(_gcall=_gcall, _acquire=_acquire)
    methods = {}
    for n in NAMES:
        src = textwrap.dedent(inspect.getsource(getattr(C.CompiledRouter, n)))
        tree = T().visit(ast.parse(src)); ast.fix_missing_locations(tree)
        exec(compile(tree, f'<seq:{n}>', 'exec'), ns)
        methods[n] = ns[n]
    class SeqRouter(C.CompiledRouter):
        __slots__ = ()
    for n, f in methods.items(): setattr(SeqRouter, n, f)
    return SeqRouter

def run_threads(router, paths, switches):
    router._compile_lock = ModelLock()
    gens = [router.find(p) for p in paths]
    res = [None]*len(gens); done = [False]*len(gens); blocked = [False]*len(gens)
    cur = 0; step = 0
    while not all(done):
        if done[cur] or step in switches or blocked[cur]:
            cand = [i for i in range(len(gens)) if not done[i] and i != cur] or [cur]
            cur = cand[0]
        step += 1
        try:
            v = next(gens[cur]); blocked[cur] = (v == 'blocked')
        except StopIteration as e:
            res[cur] = e.value; done[cur] = True
        if step > 5000: raise RuntimeError('livelock')
    return res, step

if __name__ == '__main__':
    SeqRouter = build()
    class R:
        def on_get(self, req, resp, **kw): pass
    def mk():
        r = SeqRouter()
        r.add_route('/a/{n:int(1)}', R()); r.add_route('/b/{m:int(3)}/c', R()); r.add_route('/a/b', R())
        return r
    r = mk(); res, steps = run_threads(r, ['/a/5', '/b/777/c'], set())
    print(steps, [(x[2], x[3]) for x in res])
    bad = 0
    for s1 in range(steps):
        r = mk()
        try:
            res, _ = run_threads(r, ['/a/5', '/b/777/c'], {s1})
            ok = [(x[2], x[3]) if x else None for x in res] == [({'n': 5}, '/a/{n:int(1)}'), ({'m': 777}, '/b/{m:int(3)}/c')]
        except Exception as e:
            ok = False
        bad += (not ok)
    print('bad schedules with lock:', bad)
    import time
    t=time.time(); bad=0; tot=0; first=None
    for s1 in range(0, steps):
        for s2 in range(s1+1, min(steps, s1+40)):
            r = mk(); tot+=1
            try:
                res, _ = run_threads(r, ['/a/5', '/b/777/c'], {s1, s2})
                ok = [(x[2], x[3]) if x else None for x in res] == [({'n': 5}, '/a/{n:int(1)}'), ({'m': 777}, '/b/{m:int(3)}/c')]
            except Exception as e:
                ok = False
            if not ok and first is None: first=(s1,s2)
            bad += (not ok)
    print('2-preemption schedules', tot, 'bad', bad, first, round(time.time()-t,1))
