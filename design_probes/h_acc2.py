import falcon, falcon.testing as ft
from falcon.request import Request, RequestOptions
def mk(envkey, value):
    env = ft.create_environ(path='/x')
    env[envkey] = value
    return Request(env, options=RequestOptions())

def t_range(v: str) -> int:
    """
    pre: len(v) <= 4
    pre: all(ord(c) < 256 for c in v)
    post: _ == 1
    """
    req = mk('HTTP_RANGE', v)
    try:
        x = req.range; y = req.range
    except falcon.HTTPError as e:
        if not (400 <= e.status_code < 500): return 0
    try:
        x = req.range_unit; y = req.range_unit
    except falcon.HTTPError as e:
        if not (400 <= e.status_code < 500): return 0
    return 1

def t_inm(v: str) -> int:
    """
    pre: len(v) <= 4
    pre: all(ord(c) < 256 for c in v)
    post: _ == 1
    """
    req = mk('HTTP_IF_NONE_MATCH', v)
    try:
        x = req.if_none_match; y = req.if_none_match
    except falcon.HTTPError as e:
        if not (400 <= e.status_code < 500): return 0
    return 1

def t_im(v: str) -> int:
    """
    pre: len(v) <= 4
    pre: all(ord(c) < 256 for c in v)
    post: _ == 1
    """
    req = mk('HTTP_IF_MATCH', v)
    try:
        x = req.if_match; y = req.if_match
    except falcon.HTTPError as e:
        if not (400 <= e.status_code < 500): return 0
    return 1

def t_cookie(v: str) -> int:
    """
    pre: len(v) <= 4
    pre: all(ord(c) < 256 for c in v)
    post: _ == 1
    """
    req = mk('HTTP_COOKIE', v)
    try:
        x = req.cookies; y = req.cookies
    except falcon.HTTPError as e:
        if not (400 <= e.status_code < 500): return 0
    return 1

def t_fwd(v: str) -> int:
    """
    pre: len(v) <= 4
    pre: all(ord(c) < 256 for c in v)
    post: _ == 1
    """
    req = mk('HTTP_FORWARDED', v)
    try:
        x = req.forwarded; y = req.forwarded
    except falcon.HTTPError as e:
        if not (400 <= e.status_code < 500): return 0
    try:
        x = req.access_route; y = req.access_route
    except falcon.HTTPError as e:
        if not (400 <= e.status_code < 500): return 0
    try:
        x = req.forwarded_scheme; y = req.forwarded_scheme
    except falcon.HTTPError as e:
        if not (400 <= e.status_code < 500): return 0
    try:
        x = req.forwarded_host; y = req.forwarded_host
    except falcon.HTTPError as e:
        if not (400 <= e.status_code < 500): return 0
    try:
        x = req.forwarded_uri; y = req.forwarded_uri
    except falcon.HTTPError as e:
        if not (400 <= e.status_code < 500): return 0
    try:
        x = req.forwarded_prefix; y = req.forwarded_prefix
    except falcon.HTTPError as e:
        if not (400 <= e.status_code < 500): return 0
    try:
        x = req.remote_addr; y = req.remote_addr
    except falcon.HTTPError as e:
        if not (400 <= e.status_code < 500): return 0
    return 1

def t_xff(v: str) -> int:
    """
    pre: len(v) <= 4
    pre: all(ord(c) < 256 for c in v)
    post: _ == 1
    """
    req = mk('HTTP_X_FORWARDED_FOR', v)
    try:
        x = req.access_route; y = req.access_route
    except falcon.HTTPError as e:
        if not (400 <= e.status_code < 500): return 0
    return 1

def t_host(v: str) -> int:
    """
    pre: len(v) <= 4
    pre: all(ord(c) < 256 for c in v)
    post: _ == 1
    """
    req = mk('HTTP_HOST', v)
    try:
        x = req.netloc; y = req.netloc
    except falcon.HTTPError as e:
        if not (400 <= e.status_code < 500): return 0
    try:
        x = req.uri; y = req.uri
    except falcon.HTTPError as e:
        if not (400 <= e.status_code < 500): return 0
    try:
        x = req.url; y = req.url
    except falcon.HTTPError as e:
        if not (400 <= e.status_code < 500): return 0
    try:
        x = req.prefix; y = req.prefix
    except falcon.HTTPError as e:
        if not (400 <= e.status_code < 500): return 0
    try:
        x = req.relative_uri; y = req.relative_uri
    except falcon.HTTPError as e:
        if not (400 <= e.status_code < 500): return 0
    try:
        x = req.forwarded_host; y = req.forwarded_host
    except falcon.HTTPError as e:
        if not (400 <= e.status_code < 500): return 0
    return 1

def t_accept(v: str) -> int:
    """
    pre: len(v) <= 4
    pre: all(ord(c) < 256 for c in v)
    post: _ == 1
    """
    req = mk('HTTP_ACCEPT', v)
    try:
        x = req.accept; y = req.accept
    except falcon.HTTPError as e:
        if not (400 <= e.status_code < 500): return 0
    try:
        x = req.client_accepts_json; y = req.client_accepts_json
    except falcon.HTTPError as e:
        if not (400 <= e.status_code < 500): return 0
    try:
        x = req.client_accepts_xml; y = req.client_accepts_xml
    except falcon.HTTPError as e:
        if not (400 <= e.status_code < 500): return 0
    try:
        x = req.client_accepts_msgpack; y = req.client_accepts_msgpack
    except falcon.HTTPError as e:
        if not (400 <= e.status_code < 500): return 0
    return 1

def t_cl(v: str) -> int:
    """
    pre: len(v) <= 4
    pre: all(ord(c) < 256 for c in v)
    post: _ == 1
    """
    req = mk('CONTENT_LENGTH', v)
    try:
        x = req.content_length; y = req.content_length
    except falcon.HTTPError as e:
        if not (400 <= e.status_code < 500): return 0
    try:
        x = req.stream; y = req.stream
    except falcon.HTTPError as e:
        if not (400 <= e.status_code < 500): return 0
    try:
        x = req.bounded_stream; y = req.bounded_stream
    except falcon.HTTPError as e:
        if not (400 <= e.status_code < 500): return 0
    return 1

def t_ct(v: str) -> int:
    """
    pre: len(v) <= 4
    pre: all(ord(c) < 256 for c in v)
    post: _ == 1
    """
    req = mk('CONTENT_TYPE', v)
    try:
        x = req.content_type; y = req.content_type
    except falcon.HTTPError as e:
        if not (400 <= e.status_code < 500): return 0
    return 1

def t_date(v: str) -> int:
    """
    pre: len(v) <= 4
    pre: all(ord(c) < 256 for c in v)
    post: _ == 1
    """
    req = mk('HTTP_DATE', v)
    try:
        x = req.date; y = req.date
    except falcon.HTTPError as e:
        if not (400 <= e.status_code < 500): return 0
    return 1

def t_xfh(v: str) -> int:
    """
    pre: len(v) <= 4
    pre: all(ord(c) < 256 for c in v)
    post: _ == 1
    """
    req = mk('HTTP_X_FORWARDED_HOST', v)
    try:
        x = req.forwarded_host; y = req.forwarded_host
    except falcon.HTTPError as e:
        if not (400 <= e.status_code < 500): return 0
    try:
        x = req.forwarded_uri; y = req.forwarded_uri
    except falcon.HTTPError as e:
        if not (400 <= e.status_code < 500): return 0
    try:
        x = req.forwarded_prefix; y = req.forwarded_prefix
    except falcon.HTTPError as e:
        if not (400 <= e.status_code < 500): return 0
    return 1
