from falcon.util import mediatypes as M
from typing import Dict, List, Tuple
T = ['*', 'a', 'b']
PN = ['v', 'w']; PV = ['1', '2']
Q = [0.0, 0.001, 0.5, 1.0]

def mkparams(code: int):
    # code in 0..8: none / v=1 / v=2 / w=1 / w=2 / v=1,w=1 / v=1,w=2 / v=2,w=1 / v=2,w=2
    d = {}
    if code in (1,5,6): d['v'] = '1'
    if code in (2,7,8): d['v'] = '2'
    if code in (3,5,7): d['w'] = '1'
    if code in (4,6,8): d['w'] = '2'
    return d

def ref_score(r, t):
    rm, rs, rq, rp = r; tm, ts, tp = t
    if rm == '*' or tm == '*': a = 0
    elif rm != tm: return None
    else: a = 1
    if rs == '*' or ts == '*': b = 0
    elif rs != ts: return None
    else: b = 1
    common = [k for k in rp if k in tp]
    for k in common:
        if rp[k] != tp[k]: return None
    exact = 1 if sorted(rp) == sorted(tp) else 0
    return (a, b, exact, len(common), rq)

def ref_quality(ranges, t):
    best = None
    for r in ranges:
        s = ref_score(r, t)
        if s is None: continue
        if best is None or s > best: best = s
    return 0.0 if best is None else best[4]

def check(m0:int,s0:int,q0:int,p0:int, m1:int,s1:int,q1:int,p1:int, tm:int,ts:int,tp:int) -> bool:
    """
    pre: 0<=m0<=2 and 0<=s0<=2 and 0<=q0<=3 and 0<=p0<=8
    pre: 0<=m1<=2 and 0<=s1<=2 and 0<=q1<=3 and 0<=p1<=8
    pre: 0<=tm<=2 and 0<=ts<=2 and 0<=tp<=8
    post: _ == True
    """
    r0 = M._MediaRange(T[m0], T[s0], Q[q0], mkparams(p0))
    r1 = M._MediaRange(T[m1], T[s1], Q[q1], mkparams(p1))
    t = M._MediaType(T[tm], T[ts], mkparams(tp))
    got = max(r.match_score(t) for r in (r0, r1))[-1]
    exp = ref_quality([(T[m0],T[s0],Q[q0],mkparams(p0)), (T[m1],T[s1],Q[q1],mkparams(p1))], (T[tm],T[ts],mkparams(tp)))
    return got == exp
