import sys
sys.modules['falcon.cyutil'] = None
from falcon.asgi.reader import BufferedReader
from falcon.errors import DelimiterError, OperationNotAllowed

def run(coro):
    try:
        coro.send(None)
    except StopIteration as e:
        return e.value
    raise RuntimeError('suspended')

class Model:
    def __init__(self, data): self.d = data; self.p = 0
    def read(self, size):
        if size is None or size == -1: size = len(self.d) - self.p
        if size <= 0: return b''
        r = self.d[self.p:self.p+size]; self.p += len(r); return r
    def peek(self, size, chunk):
        if size < 0 or size > chunk: size = chunk
        return self.d[self.p:self.p+size]
    def read_until(self, delim, size, consume):
        i = self.d.find(delim, self.p)
        end = len(self.d) if i < 0 else i
        if size is not None and size != -1:
            if size <= 0: end = self.p
            else: end = min(end, self.p + size)
        r = self.d[self.p:end]; self.p = end
        if consume:
            if self.d[self.p:self.p+len(delim)] != delim: raise DelimiterError()
            self.p += len(delim)
        return r

async def source(chunks):
    for c in chunks:
        yield c

def do(r, m, op, n, chunk):
    e1 = e2 = None; a = b = None
    try:
        if op == 0: a = run(r.read(n))
        elif op == 1: a = run(r.peek(n))
        elif op == 2: a = run(r.read_until(b'-', n, False))
        elif op == 3: a = run(r.read_until(b'-', n, True))
    except DelimiterError: e1 = True
    try:
        if op == 0: b = m.read(n)
        elif op == 1: b = m.peek(n, chunk)
        elif op == 2: b = m.read_until(b'-', n, False)
        elif op == 3: b = m.read_until(b'-', n, True)
    except DelimiterError: e2 = True
    return (e1, a), (e2, b)

def scenario(data, cut1, cut2, chunk, ops):
    chunks = [data[:cut1], data[cut1:cut2], data[cut2:]]
    r = BufferedReader(source(chunks), chunk)
    m = Model(data)
    for op, n in ops:
        x, y = do(r, m, op, n, chunk)
        if x != y: return False
        if x[0]: return True
        if r.tell() != m.p: return False
    return True

def s_2_00(data: bytes, cut1: int, cut2: int, n0: int, n1: int) -> bool:
    """
    pre: len(data) == 4
    pre: all(b in (45, 120) for b in data)
    pre: 0 <= cut1 <= cut2 <= 4
    pre: -1 <= n0 <= 5 and -1 <= n1 <= 5
    post: _ == True
    """
    return scenario(data, cut1, cut2, 2, ((0, n0), (0, n1)))

def s_2_01(data: bytes, cut1: int, cut2: int, n0: int, n1: int) -> bool:
    """
    pre: len(data) == 4
    pre: all(b in (45, 120) for b in data)
    pre: 0 <= cut1 <= cut2 <= 4
    pre: -1 <= n0 <= 5 and -1 <= n1 <= 5
    post: _ == True
    """
    return scenario(data, cut1, cut2, 2, ((0, n0), (1, n1)))

def s_2_02(data: bytes, cut1: int, cut2: int, n0: int, n1: int) -> bool:
    """
    pre: len(data) == 4
    pre: all(b in (45, 120) for b in data)
    pre: 0 <= cut1 <= cut2 <= 4
    pre: -1 <= n0 <= 5 and -1 <= n1 <= 5
    post: _ == True
    """
    return scenario(data, cut1, cut2, 2, ((0, n0), (2, n1)))

def s_2_03(data: bytes, cut1: int, cut2: int, n0: int, n1: int) -> bool:
    """
    pre: len(data) == 4
    pre: all(b in (45, 120) for b in data)
    pre: 0 <= cut1 <= cut2 <= 4
    pre: -1 <= n0 <= 5 and -1 <= n1 <= 5
    post: _ == True
    """
    return scenario(data, cut1, cut2, 2, ((0, n0), (3, n1)))

def s_2_10(data: bytes, cut1: int, cut2: int, n0: int, n1: int) -> bool:
    """
    pre: len(data) == 4
    pre: all(b in (45, 120) for b in data)
    pre: 0 <= cut1 <= cut2 <= 4
    pre: -1 <= n0 <= 5 and -1 <= n1 <= 5
    post: _ == True
    """
    return scenario(data, cut1, cut2, 2, ((1, n0), (0, n1)))

def s_2_11(data: bytes, cut1: int, cut2: int, n0: int, n1: int) -> bool:
    """
    pre: len(data) == 4
    pre: all(b in (45, 120) for b in data)
    pre: 0 <= cut1 <= cut2 <= 4
    pre: -1 <= n0 <= 5 and -1 <= n1 <= 5
    post: _ == True
    """
    return scenario(data, cut1, cut2, 2, ((1, n0), (1, n1)))

def s_2_12(data: bytes, cut1: int, cut2: int, n0: int, n1: int) -> bool:
    """
    pre: len(data) == 4
    pre: all(b in (45, 120) for b in data)
    pre: 0 <= cut1 <= cut2 <= 4
    pre: -1 <= n0 <= 5 and -1 <= n1 <= 5
    post: _ == True
    """
    return scenario(data, cut1, cut2, 2, ((1, n0), (2, n1)))

def s_2_13(data: bytes, cut1: int, cut2: int, n0: int, n1: int) -> bool:
    """
    pre: len(data) == 4
    pre: all(b in (45, 120) for b in data)
    pre: 0 <= cut1 <= cut2 <= 4
    pre: -1 <= n0 <= 5 and -1 <= n1 <= 5
    post: _ == True
    """
    return scenario(data, cut1, cut2, 2, ((1, n0), (3, n1)))

def s_2_20(data: bytes, cut1: int, cut2: int, n0: int, n1: int) -> bool:
    """
    pre: len(data) == 4
    pre: all(b in (45, 120) for b in data)
    pre: 0 <= cut1 <= cut2 <= 4
    pre: -1 <= n0 <= 5 and -1 <= n1 <= 5
    post: _ == True
    """
    return scenario(data, cut1, cut2, 2, ((2, n0), (0, n1)))

def s_2_21(data: bytes, cut1: int, cut2: int, n0: int, n1: int) -> bool:
    """
    pre: len(data) == 4
    pre: all(b in (45, 120) for b in data)
    pre: 0 <= cut1 <= cut2 <= 4
    pre: -1 <= n0 <= 5 and -1 <= n1 <= 5
    post: _ == True
    """
    return scenario(data, cut1, cut2, 2, ((2, n0), (1, n1)))

def s_2_22(data: bytes, cut1: int, cut2: int, n0: int, n1: int) -> bool:
    """
    pre: len(data) == 4
    pre: all(b in (45, 120) for b in data)
    pre: 0 <= cut1 <= cut2 <= 4
    pre: -1 <= n0 <= 5 and -1 <= n1 <= 5
    post: _ == True
    """
    return scenario(data, cut1, cut2, 2, ((2, n0), (2, n1)))

def s_2_23(data: bytes, cut1: int, cut2: int, n0: int, n1: int) -> bool:
    """
    pre: len(data) == 4
    pre: all(b in (45, 120) for b in data)
    pre: 0 <= cut1 <= cut2 <= 4
    pre: -1 <= n0 <= 5 and -1 <= n1 <= 5
    post: _ == True
    """
    return scenario(data, cut1, cut2, 2, ((2, n0), (3, n1)))

def s_2_30(data: bytes, cut1: int, cut2: int, n0: int, n1: int) -> bool:
    """
    pre: len(data) == 4
    pre: all(b in (45, 120) for b in data)
    pre: 0 <= cut1 <= cut2 <= 4
    pre: -1 <= n0 <= 5 and -1 <= n1 <= 5
    post: _ == True
    """
    return scenario(data, cut1, cut2, 2, ((3, n0), (0, n1)))

def s_2_31(data: bytes, cut1: int, cut2: int, n0: int, n1: int) -> bool:
    """
    pre: len(data) == 4
    pre: all(b in (45, 120) for b in data)
    pre: 0 <= cut1 <= cut2 <= 4
    pre: -1 <= n0 <= 5 and -1 <= n1 <= 5
    post: _ == True
    """
    return scenario(data, cut1, cut2, 2, ((3, n0), (1, n1)))

def s_2_32(data: bytes, cut1: int, cut2: int, n0: int, n1: int) -> bool:
    """
    pre: len(data) == 4
    pre: all(b in (45, 120) for b in data)
    pre: 0 <= cut1 <= cut2 <= 4
    pre: -1 <= n0 <= 5 and -1 <= n1 <= 5
    post: _ == True
    """
    return scenario(data, cut1, cut2, 2, ((3, n0), (2, n1)))

def s_2_33(data: bytes, cut1: int, cut2: int, n0: int, n1: int) -> bool:
    """
    pre: len(data) == 4
    pre: all(b in (45, 120) for b in data)
    pre: 0 <= cut1 <= cut2 <= 4
    pre: -1 <= n0 <= 5 and -1 <= n1 <= 5
    post: _ == True
    """
    return scenario(data, cut1, cut2, 2, ((3, n0), (3, n1)))

def s_3_00(data: bytes, cut1: int, cut2: int, n0: int, n1: int) -> bool:
    """
    pre: len(data) == 4
    pre: all(b in (45, 120) for b in data)
    pre: 0 <= cut1 <= cut2 <= 4
    pre: -1 <= n0 <= 5 and -1 <= n1 <= 5
    post: _ == True
    """
    return scenario(data, cut1, cut2, 3, ((0, n0), (0, n1)))

def s_3_01(data: bytes, cut1: int, cut2: int, n0: int, n1: int) -> bool:
    """
    pre: len(data) == 4
    pre: all(b in (45, 120) for b in data)
    pre: 0 <= cut1 <= cut2 <= 4
    pre: -1 <= n0 <= 5 and -1 <= n1 <= 5
    post: _ == True
    """
    return scenario(data, cut1, cut2, 3, ((0, n0), (1, n1)))

def s_3_02(data: bytes, cut1: int, cut2: int, n0: int, n1: int) -> bool:
    """
    pre: len(data) == 4
    pre: all(b in (45, 120) for b in data)
    pre: 0 <= cut1 <= cut2 <= 4
    pre: -1 <= n0 <= 5 and -1 <= n1 <= 5
    post: _ == True
    """
    return scenario(data, cut1, cut2, 3, ((0, n0), (2, n1)))

def s_3_03(data: bytes, cut1: int, cut2: int, n0: int, n1: int) -> bool:
    """
    pre: len(data) == 4
    pre: all(b in (45, 120) for b in data)
    pre: 0 <= cut1 <= cut2 <= 4
    pre: -1 <= n0 <= 5 and -1 <= n1 <= 5
    post: _ == True
    """
    return scenario(data, cut1, cut2, 3, ((0, n0), (3, n1)))

def s_3_10(data: bytes, cut1: int, cut2: int, n0: int, n1: int) -> bool:
    """
    pre: len(data) == 4
    pre: all(b in (45, 120) for b in data)
    pre: 0 <= cut1 <= cut2 <= 4
    pre: -1 <= n0 <= 5 and -1 <= n1 <= 5
    post: _ == True
    """
    return scenario(data, cut1, cut2, 3, ((1, n0), (0, n1)))

def s_3_11(data: bytes, cut1: int, cut2: int, n0: int, n1: int) -> bool:
    """
    pre: len(data) == 4
    pre: all(b in (45, 120) for b in data)
    pre: 0 <= cut1 <= cut2 <= 4
    pre: -1 <= n0 <= 5 and -1 <= n1 <= 5
    post: _ == True
    """
    return scenario(data, cut1, cut2, 3, ((1, n0), (1, n1)))

def s_3_12(data: bytes, cut1: int, cut2: int, n0: int, n1: int) -> bool:
    """
    pre: len(data) == 4
    pre: all(b in (45, 120) for b in data)
    pre: 0 <= cut1 <= cut2 <= 4
    pre: -1 <= n0 <= 5 and -1 <= n1 <= 5
    post: _ == True
    """
    return scenario(data, cut1, cut2, 3, ((1, n0), (2, n1)))

def s_3_13(data: bytes, cut1: int, cut2: int, n0: int, n1: int) -> bool:
    """
    pre: len(data) == 4
    pre: all(b in (45, 120) for b in data)
    pre: 0 <= cut1 <= cut2 <= 4
    pre: -1 <= n0 <= 5 and -1 <= n1 <= 5
    post: _ == True
    """
    return scenario(data, cut1, cut2, 3, ((1, n0), (3, n1)))

def s_3_20(data: bytes, cut1: int, cut2: int, n0: int, n1: int) -> bool:
    """
    pre: len(data) == 4
    pre: all(b in (45, 120) for b in data)
    pre: 0 <= cut1 <= cut2 <= 4
    pre: -1 <= n0 <= 5 and -1 <= n1 <= 5
    post: _ == True
    """
    return scenario(data, cut1, cut2, 3, ((2, n0), (0, n1)))

def s_3_21(data: bytes, cut1: int, cut2: int, n0: int, n1: int) -> bool:
    """
    pre: len(data) == 4
    pre: all(b in (45, 120) for b in data)
    pre: 0 <= cut1 <= cut2 <= 4
    pre: -1 <= n0 <= 5 and -1 <= n1 <= 5
    post: _ == True
    """
    return scenario(data, cut1, cut2, 3, ((2, n0), (1, n1)))

def s_3_22(data: bytes, cut1: int, cut2: int, n0: int, n1: int) -> bool:
    """
    pre: len(data) == 4
    pre: all(b in (45, 120) for b in data)
    pre: 0 <= cut1 <= cut2 <= 4
    pre: -1 <= n0 <= 5 and -1 <= n1 <= 5
    post: _ == True
    """
    return scenario(data, cut1, cut2, 3, ((2, n0), (2, n1)))

def s_3_23(data: bytes, cut1: int, cut2: int, n0: int, n1: int) -> bool:
    """
    pre: len(data) == 4
    pre: all(b in (45, 120) for b in data)
    pre: 0 <= cut1 <= cut2 <= 4
    pre: -1 <= n0 <= 5 and -1 <= n1 <= 5
    post: _ == True
    """
    return scenario(data, cut1, cut2, 3, ((2, n0), (3, n1)))

def s_3_30(data: bytes, cut1: int, cut2: int, n0: int, n1: int) -> bool:
    """
    pre: len(data) == 4
    pre: all(b in (45, 120) for b in data)
    pre: 0 <= cut1 <= cut2 <= 4
    pre: -1 <= n0 <= 5 and -1 <= n1 <= 5
    post: _ == True
    """
    return scenario(data, cut1, cut2, 3, ((3, n0), (0, n1)))

def s_3_31(data: bytes, cut1: int, cut2: int, n0: int, n1: int) -> bool:
    """
    pre: len(data) == 4
    pre: all(b in (45, 120) for b in data)
    pre: 0 <= cut1 <= cut2 <= 4
    pre: -1 <= n0 <= 5 and -1 <= n1 <= 5
    post: _ == True
    """
    return scenario(data, cut1, cut2, 3, ((3, n0), (1, n1)))

def s_3_32(data: bytes, cut1: int, cut2: int, n0: int, n1: int) -> bool:
    """
    pre: len(data) == 4
    pre: all(b in (45, 120) for b in data)
    pre: 0 <= cut1 <= cut2 <= 4
    pre: -1 <= n0 <= 5 and -1 <= n1 <= 5
    post: _ == True
    """
    return scenario(data, cut1, cut2, 3, ((3, n0), (2, n1)))

def s_3_33(data: bytes, cut1: int, cut2: int, n0: int, n1: int) -> bool:
    """
    pre: len(data) == 4
    pre: all(b in (45, 120) for b in data)
    pre: 0 <= cut1 <= cut2 <= 4
    pre: -1 <= n0 <= 5 and -1 <= n1 <= 5
    post: _ == True
    """
    return scenario(data, cut1, cut2, 3, ((3, n0), (3, n1)))
