import os, posixpath, inspect, re, textwrap
import falcon, falcon.testing as ft
from falcon.routing import static as S
from falcon.request import Request, RequestOptions
from falcon.response import Response, ResponseOptions

# pure-python normpath extracted from the interpreter's own posixpath source
_src = inspect.getsource(posixpath)
_i = _src.index('except ImportError:\n    def normpath(path):')
_j = _src.index('\nelse:\n    def normpath', _i)
_ns = {'os': os, 'splitroot': posixpath.splitroot}
exec(textwrap.dedent(_src[_i + len('except ImportError:\n'):_j]), _ns)
py_normpath = _ns['normpath']

opened = []
def fake_open(path):
    opened.append(path)
    raise falcon.HTTPNotFound()

def lexical_inside(base, rel):
    # independent: walk segments; may never rise above base
    depth = 0
    for seg in rel.split('/'):
        if seg in ('', '.'): continue
        if seg == '..':
            depth -= 1
            if depth < 0: return False
        else: depth += 1
    return depth > 0

def check(p: str) -> bool:
    """
    pre: len(p) <= 5
    post: _ == True
    """
    opened.clear()
    sr = S.StaticRoute('/s', '/srv/www')
    env = ft.create_environ(path='/s/x')
    req = Request(env, options=RequestOptions())
    req.path = '/s/' + p
    resp = Response(options=ResponseOptions())
    orig = (S._open_file, os.path.normpath)
    S._open_file = fake_open; os.path.normpath = py_normpath
    try:
        try:
            sr(req, resp)
        except falcon.HTTPNotFound:
            pass
    finally:
        S._open_file, os.path.normpath = orig
    for f in opened:
        if not f.startswith('/srv/www/'): return False
        if not lexical_inside('/srv/www', f[len('/srv/www/'):]): return False
        if not lexical_inside('/srv/www', p): return False
    return True
