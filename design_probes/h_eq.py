import falcon, falcon.asgi
from falcon.request import Request, RequestOptions
from falcon.asgi.request import Request as ARequest

def wsgi_req(name, value, qs, path):
    env = {'REQUEST_METHOD': 'GET', 'SCRIPT_NAME': '', 'PATH_INFO': path, 'QUERY_STRING': qs,
           'SERVER_NAME': 'srv', 'SERVER_PORT': '8080', 'SERVER_PROTOCOL': 'HTTP/1.1', 'REMOTE_ADDR': '10.0.0.9',
           'wsgi.version': (1, 0), 'wsgi.url_scheme': 'http', 'wsgi.input': None, 'wsgi.errors': None,
           'wsgi.multithread': False, 'wsgi.multiprocess': False, 'wsgi.run_once': False}
    key = name.upper().replace('-', '_')
    if key not in ('CONTENT_TYPE', 'CONTENT_LENGTH'): key = 'HTTP_' + key
    env[key] = value
    if 'HTTP_HOST' not in env: env['HTTP_HOST'] = 'srv:8080'
    return Request(env, options=RequestOptions())

def asgi_req(name, value, qs, path):
    headers = [(name.lower().encode('latin-1'), value.encode('latin-1'))]
    if name.lower() != 'host': headers.append((b'host', b'srv:8080'))
    scope = {'type': 'http', 'asgi': {'version': '3.0', 'spec_version': '2.1'}, 'http_version': '1.1', 'method': 'GET',
             'scheme': 'http', 'path': path, 'raw_path': path.encode(), 'query_string': qs.encode('latin-1'), 'root_path': '',
             'headers': headers, 'client': ('10.0.0.9', 5555), 'server': ('srv', 8080)}
    async def receive(): return {'type': 'http.disconnect'}
    return ARequest(scope, receive, first_event={'type': 'http.request', 'body': b'', 'more_body': False}, options=RequestOptions())

def norm(v):
    if isinstance(v, list): return [norm(x) for x in v]
    if isinstance(v, tuple): return tuple(norm(x) for x in v)
    if isinstance(v, dict): return sorted((str(k).lower(), norm(x)) for k, x in v.items())
    if v is None or isinstance(v, (str, int, bool, float)): return v
    return repr(v)

def eq_host(v: str) -> int:
    """
    pre: len(v) <= 3
    pre: all(ord(c) < 256 for c in v)
    post: _ == 1
    """
    w = wsgi_req('Host', v, '', '/x'); z = asgi_req('Host', v, '', '/x')
    try: a = ('v', norm(w.host))
    except falcon.HTTPError as e: a = ('e', e.status_code)
    try: b = ('v', norm(z.host))
    except falcon.HTTPError as e: b = ('e', e.status_code)
    if a != b: return 0
    try: a = ('v', norm(w.port))
    except falcon.HTTPError as e: a = ('e', e.status_code)
    try: b = ('v', norm(z.port))
    except falcon.HTTPError as e: b = ('e', e.status_code)
    if a != b: return 0
    try: a = ('v', norm(w.netloc))
    except falcon.HTTPError as e: a = ('e', e.status_code)
    try: b = ('v', norm(z.netloc))
    except falcon.HTTPError as e: b = ('e', e.status_code)
    if a != b: return 0
    try: a = ('v', norm(w.uri))
    except falcon.HTTPError as e: a = ('e', e.status_code)
    try: b = ('v', norm(z.uri))
    except falcon.HTTPError as e: b = ('e', e.status_code)
    if a != b: return 0
    try: a = ('v', norm(w.prefix))
    except falcon.HTTPError as e: a = ('e', e.status_code)
    try: b = ('v', norm(z.prefix))
    except falcon.HTTPError as e: b = ('e', e.status_code)
    if a != b: return 0
    try: a = ('v', norm(w.subdomain))
    except falcon.HTTPError as e: a = ('e', e.status_code)
    try: b = ('v', norm(z.subdomain))
    except falcon.HTTPError as e: b = ('e', e.status_code)
    if a != b: return 0
    try: a = ('v', norm(w.forwarded_host))
    except falcon.HTTPError as e: a = ('e', e.status_code)
    try: b = ('v', norm(z.forwarded_host))
    except falcon.HTTPError as e: b = ('e', e.status_code)
    if a != b: return 0
    try: a = ('v', norm(w.forwarded_uri))
    except falcon.HTTPError as e: a = ('e', e.status_code)
    try: b = ('v', norm(z.forwarded_uri))
    except falcon.HTTPError as e: b = ('e', e.status_code)
    if a != b: return 0
    return 1

def eq_range(v: str) -> int:
    """
    pre: len(v) <= 3
    pre: all(ord(c) < 256 for c in v)
    post: _ == 1
    """
    w = wsgi_req('Range', v, '', '/x'); z = asgi_req('Range', v, '', '/x')
    try: a = ('v', norm(w.range))
    except falcon.HTTPError as e: a = ('e', e.status_code)
    try: b = ('v', norm(z.range))
    except falcon.HTTPError as e: b = ('e', e.status_code)
    if a != b: return 0
    try: a = ('v', norm(w.range_unit))
    except falcon.HTTPError as e: a = ('e', e.status_code)
    try: b = ('v', norm(z.range_unit))
    except falcon.HTTPError as e: b = ('e', e.status_code)
    if a != b: return 0
    return 1

def eq_cl(v: str) -> int:
    """
    pre: len(v) <= 3
    pre: all(ord(c) < 256 for c in v)
    post: _ == 1
    """
    w = wsgi_req('Content-Length', v, '', '/x'); z = asgi_req('Content-Length', v, '', '/x')
    try: a = ('v', norm(w.content_length))
    except falcon.HTTPError as e: a = ('e', e.status_code)
    try: b = ('v', norm(z.content_length))
    except falcon.HTTPError as e: b = ('e', e.status_code)
    if a != b: return 0
    return 1

def eq_ct(v: str) -> int:
    """
    pre: len(v) <= 3
    pre: all(ord(c) < 256 for c in v)
    post: _ == 1
    """
    w = wsgi_req('Content-Type', v, '', '/x'); z = asgi_req('Content-Type', v, '', '/x')
    try: a = ('v', norm(w.content_type))
    except falcon.HTTPError as e: a = ('e', e.status_code)
    try: b = ('v', norm(z.content_type))
    except falcon.HTTPError as e: b = ('e', e.status_code)
    if a != b: return 0
    return 1

def eq_inm(v: str) -> int:
    """
    pre: len(v) <= 3
    pre: all(ord(c) < 256 for c in v)
    post: _ == 1
    """
    w = wsgi_req('If-None-Match', v, '', '/x'); z = asgi_req('If-None-Match', v, '', '/x')
    try: a = ('v', norm(w.if_none_match))
    except falcon.HTTPError as e: a = ('e', e.status_code)
    try: b = ('v', norm(z.if_none_match))
    except falcon.HTTPError as e: b = ('e', e.status_code)
    if a != b: return 0
    return 1

def eq_cookie(v: str) -> int:
    """
    pre: len(v) <= 3
    pre: all(ord(c) < 256 for c in v)
    post: _ == 1
    """
    w = wsgi_req('Cookie', v, '', '/x'); z = asgi_req('Cookie', v, '', '/x')
    try: a = ('v', norm(w.cookies))
    except falcon.HTTPError as e: a = ('e', e.status_code)
    try: b = ('v', norm(z.cookies))
    except falcon.HTTPError as e: b = ('e', e.status_code)
    if a != b: return 0
    return 1

def eq_fwd(v: str) -> int:
    """
    pre: len(v) <= 3
    pre: all(ord(c) < 256 for c in v)
    post: _ == 1
    """
    w = wsgi_req('Forwarded', v, '', '/x'); z = asgi_req('Forwarded', v, '', '/x')
    try: a = ('v', norm(w.forwarded_scheme))
    except falcon.HTTPError as e: a = ('e', e.status_code)
    try: b = ('v', norm(z.forwarded_scheme))
    except falcon.HTTPError as e: b = ('e', e.status_code)
    if a != b: return 0
    try: a = ('v', norm(w.forwarded_host))
    except falcon.HTTPError as e: a = ('e', e.status_code)
    try: b = ('v', norm(z.forwarded_host))
    except falcon.HTTPError as e: b = ('e', e.status_code)
    if a != b: return 0
    try: a = ('v', norm(w.access_route))
    except falcon.HTTPError as e: a = ('e', e.status_code)
    try: b = ('v', norm(z.access_route))
    except falcon.HTTPError as e: b = ('e', e.status_code)
    if a != b: return 0
    try: a = ('v', norm(w.forwarded_uri))
    except falcon.HTTPError as e: a = ('e', e.status_code)
    try: b = ('v', norm(z.forwarded_uri))
    except falcon.HTTPError as e: b = ('e', e.status_code)
    if a != b: return 0
    return 1

def eq_xff(v: str) -> int:
    """
    pre: len(v) <= 3
    pre: all(ord(c) < 256 for c in v)
    post: _ == 1
    """
    w = wsgi_req('X-Forwarded-For', v, '', '/x'); z = asgi_req('X-Forwarded-For', v, '', '/x')
    try: a = ('v', norm(w.access_route))
    except falcon.HTTPError as e: a = ('e', e.status_code)
    try: b = ('v', norm(z.access_route))
    except falcon.HTTPError as e: b = ('e', e.status_code)
    if a != b: return 0
    try: a = ('v', norm(w.remote_addr))
    except falcon.HTTPError as e: a = ('e', e.status_code)
    try: b = ('v', norm(z.remote_addr))
    except falcon.HTTPError as e: b = ('e', e.status_code)
    if a != b: return 0
    return 1

def eq_xfp(v: str) -> int:
    """
    pre: len(v) <= 3
    pre: all(ord(c) < 256 for c in v)
    post: _ == 1
    """
    w = wsgi_req('X-Forwarded-Proto', v, '', '/x'); z = asgi_req('X-Forwarded-Proto', v, '', '/x')
    try: a = ('v', norm(w.forwarded_scheme))
    except falcon.HTTPError as e: a = ('e', e.status_code)
    try: b = ('v', norm(z.forwarded_scheme))
    except falcon.HTTPError as e: b = ('e', e.status_code)
    if a != b: return 0
    try: a = ('v', norm(w.forwarded_uri))
    except falcon.HTTPError as e: a = ('e', e.status_code)
    try: b = ('v', norm(z.forwarded_uri))
    except falcon.HTTPError as e: b = ('e', e.status_code)
    if a != b: return 0
    return 1

def eq_accept(v: str) -> int:
    """
    pre: len(v) <= 3
    pre: all(ord(c) < 256 for c in v)
    post: _ == 1
    """
    w = wsgi_req('Accept', v, '', '/x'); z = asgi_req('Accept', v, '', '/x')
    try: a = ('v', norm(w.accept))
    except falcon.HTTPError as e: a = ('e', e.status_code)
    try: b = ('v', norm(z.accept))
    except falcon.HTTPError as e: b = ('e', e.status_code)
    if a != b: return 0
    try: a = ('v', norm(w.client_accepts_json))
    except falcon.HTTPError as e: a = ('e', e.status_code)
    try: b = ('v', norm(z.client_accepts_json))
    except falcon.HTTPError as e: b = ('e', e.status_code)
    if a != b: return 0
    return 1

def eq_ims(v: str) -> int:
    """
    pre: len(v) <= 3
    pre: all(ord(c) < 256 for c in v)
    post: _ == 1
    """
    w = wsgi_req('If-Modified-Since', v, '', '/x'); z = asgi_req('If-Modified-Since', v, '', '/x')
    try: a = ('v', norm(w.if_modified_since))
    except falcon.HTTPError as e: a = ('e', e.status_code)
    try: b = ('v', norm(z.if_modified_since))
    except falcon.HTTPError as e: b = ('e', e.status_code)
    if a != b: return 0
    return 1

def eq_custom(v: str) -> int:
    """
    pre: len(v) <= 3
    pre: all(ord(c) < 256 for c in v)
    post: _ == 1
    """
    w = wsgi_req('X-Thing', v, '', '/x'); z = asgi_req('X-Thing', v, '', '/x')
    try: a = ('v', norm(w.headers))
    except falcon.HTTPError as e: a = ('e', e.status_code)
    try: b = ('v', norm(z.headers))
    except falcon.HTTPError as e: b = ('e', e.status_code)
    if a != b: return 0
    return 1

def eq_qs(q: str) -> int:
    """
    pre: len(q) <= 3
    pre: q.isascii()
    post: _ == 1
    """
    w = wsgi_req('X-A', 'b', q, '/x'); z = asgi_req('X-A', 'b', q, '/x')
    if norm(w.params) != norm(z.params): return 0
    if w.query_string != z.query_string: return 0
    if w.uri != z.uri or w.relative_uri != z.relative_uri: return 0
    return 1
