#!/bin/bash
# Build the analysis environment offline: an overlay venv on top of /venv
# (which holds falcon's own deps and the editable install of /repo) plus
# crosshair-tool/z3-solver from the offline wheelhouse.  Idempotent.
set -e
HERE="$(cd "$(dirname "$0")" && pwd)"
VENV="${VERIF_VENV:-$HERE/.venv}"
if [ -x "$VENV/bin/python" ] && "$VENV/bin/python" -c "import crosshair, z3, falcon" 2>/dev/null; then
  exit 0
fi
rm -rf "$VENV"
/venv/bin/python -m venv "$VENV"
SP="$("$VENV/bin/python" -c 'import sysconfig; print(sysconfig.get_paths()["purelib"])')"
printf '%s\n%s\n' "/venv/lib/python3.12/site-packages" "/repo" > "$SP/verif_overlay.pth"
PIP_NO_INDEX=1 "$VENV/bin/python" -m pip install -q --no-index --find-links /opt/veriftools/wheels crosshair-tool >/dev/null
"$VENV/bin/python" -c "import crosshair, z3, falcon; print('verif venv ready:', crosshair.__version__ if hasattr(crosshair,'__version__') else 'crosshair', z3.get_version_string())"
